//! C12 — dependency satisfaction is decided per Debian semantics (DESIGN 3/C12).

use crate::core::*;
use crate::kdev::product;
use debian_control::lossless::relations as ll;
use debian_control::lossy as ly;
use debian_control::VersionLookup;
use debversion::Version;
use serde::{Deserialize, Serialize};
use serde_json::{json, Value};
use std::collections::HashMap;
use std::str::FromStr;

/// Debian order, hard-coded as the reference (independent of the debversion crate).
/// (the first nine form the quick pool: it holds an explicit zero epoch and two non-zero epochs)
pub const POOL: [&str; 16] = ["0.9", "1.0~rc1", "1.0", "1.0-1", "1.0+dfsg-1", "0:1.0", "1.1", "1:0.5", "2:0~a", "1.9", "1.10", "1.0-1+b1", "1.0-1.1", "0:1.0-1", "1.0a", "1.0-0"];
/// Debian rank of each pool entry: an explicit zero epoch ("0:1.0") is the same version as "1.0"
/// ("1.9" < "1.10": components compare as numbers; "1.0a" < "1.0+dfsg": letters sort before '+'; "1.0-0" is "1.0": a
/// missing revision is revision 0)
pub const RANK: [u32; 16] = [0, 10, 20, 30, 60, 20, 70, 80, 90, 72, 74, 40, 50, 30, 55, 20];
pub const OPS12: [&str; 6] = ["", "<<", "<=", "=", ">=", ">>"];

#[derive(Clone, Serialize, Deserialize, PartialEq, Debug)]
pub enum C12Case {
    /// single relation: operator index, required version index, installed version index (POOL.len() = absent)
    Cell { op: usize, req: usize, inst: usize },
    /// AND/OR nesting: per entry, per alternative: 0 satisfied, 1 version mismatch, 2 absent
    Nest { entries: Vec<Vec<u8>> },
    /// one entry whose alternatives all name the SAME package: (operator index, required version index) each;
    /// installed version index (POOL.len() = absent); then a second entry on another, installed package
    SamePkg { alts: Vec<(usize, usize)>, inst: usize },
    /// entries whose alternatives are drawn from THREE shared package names (0 = x, 1 = y, 2 = z (>= 1)), so that entries
    /// repeat, overlap and are prefixes of one another; `installed` is a bit mask over the three packages
    Shared { entries: Vec<Vec<u8>>, installed: u8 },
}

pub struct C12;

fn pool(t: Tier) -> usize {
    t.pick(11, POOL.len())
}

fn reference_cell(op: usize, req: usize, inst: Option<usize>) -> bool {
    match inst {
        None => false,
        Some(i) => {
            let (i, req) = (RANK[i], RANK[req]);
            match OPS12[op] {
                "" => true,
                "<<" => i < req,
                "<=" => i <= req,
                "=" => i == req,
                ">=" => i >= req,
                ">>" => i > req,
                _ => unreachable!(),
            }
        }
    }
}

/// The same field as lossless trees of different provenance: parsed; normalised by wrap_and_sort; rebuilt relation by
/// relation through the lossy form (From<lossy::Relation>); rebuilt with Relation::new; parsed and then edited with
/// set_version to the constraint it already has.  And as lossy values: parsed; converted from the lossless tree.
pub fn ll_variants(text: &str) -> Vec<(&'static str, ll::Relations)> {
    let parsed = ll::Relations::from_str(text).unwrap();
    let mut out = vec![("parsed", ll::Relations::from_str(text).unwrap())];
    out.push(("normalised by wrap_and_sort", ll::Relations::from_str(text).unwrap().wrap_and_sort()));
    let via_lossy: Vec<ll::Entry> = parsed.entries().map(|e| ll::Entry::from(e.relations().map(|r| ll::Relation::from(ly::Relation::from(r))).collect::<Vec<_>>())).collect();
    out.push(("rebuilt through the lossy form", ll::Relations::from(via_lossy)));
    let via_new: Vec<ll::Entry> = parsed.entries().map(|e| ll::Entry::from(e.relations().map(|r| ll::Relation::new(&r.name(), r.version())).collect::<Vec<_>>())).collect();
    out.push(("rebuilt with Relation::new", ll::Relations::from(via_new)));
    let edited = ll::Relations::from_str(text).unwrap();
    for e in edited.entries() {
        for mut r in e.relations() {
            let v = r.version();
            r.set_version(v);
        }
    }
    out.push(("edited with set_version", edited));
    out
}
/// ll_variants plus the field parsed from text that carries empty entries (used by C12 only; C13 has its own clause for
/// empty entries)
fn ll_variants_all(text: &str) -> Vec<(&'static str, ll::Relations)> {
    let mut out = ll_variants(text);
    for (how, t) in with_empty_entries(text) {
        if let Ok(r) = ll::Relations::from_str(&t) {
            out.push((how, r));
        }
    }
    out
}
/// the same field with an empty entry (what a substitution variable that expands to nothing leaves behind) in front,
/// between every two entries, and behind
fn with_empty_entries(text: &str) -> Vec<(&'static str, String)> {
    if text.trim().is_empty() {
        return vec![];
    }
    let mut v = vec![("parsed, with an empty entry in front", format!(", {}", text)), ("parsed, with an empty entry behind", format!("{}, ,", text))];
    if text.contains(',') {
        v.push(("parsed, with an empty entry between every two entries", text.replace(',', ", ,")));
    }
    v
}
fn ly_variants(text: &str) -> Vec<(&'static str, ly::Relations)> {
    let parsed = ly::Relations::from_str(text).unwrap();
    let conv = ly::Relations(ll::Relations::from_str(text).unwrap().entries().map(|e| e.relations().map(ly::Relation::from).collect()).collect());
    let mut out = vec![("parsed", parsed), ("converted from the lossless tree", conv)];
    for (how, t) in with_empty_entries(text) {
        if let Ok(r) = ly::Relations::from_str(&t) {
            out.push((how, r));
        }
    }
    out
}

fn check_cell(op: usize, req: usize, inst: usize) -> Vec<Viol> {
    let mut out = vec![];
    let installed: Option<Version> = POOL.get(inst).map(|v| v.parse().unwrap());
    let inst_idx = if inst < POOL.len() { Some(inst) } else { None };
    let want = reference_cell(op, req, inst_idx);
    let text = if op == 0 { "pkg".to_string() } else { format!("pkg ({} {})", OPS12[op], POOL[req]) };
    let ctx = |who: &str, got: bool| format!("{:?} with pkg installed at {:?}: {} says {}, Debian semantics say {}", text, POOL.get(inst), who, got, want);
    let mut map: HashMap<String, Version> = HashMap::new();
    if let Some(v) = &installed {
        map.insert("pkg".to_string(), v.clone());
    }
    map.insert("other".to_string(), "9".parse().unwrap());
    let closure = |name: &str| -> Option<Version> { map.get(name).cloned() };
    // lookup forms agree on what is installed
    let pair: (String, Version) = match &installed {
        Some(v) => ("pkg".to_string(), v.clone()),
        None => ("other".to_string(), "9".parse().unwrap()),
    };
    let l1 = map.lookup_version("pkg").map(|c| c.into_owned());
    let l2 = closure.lookup_version("pkg").map(|c| c.into_owned());
    let l3 = pair.lookup_version("pkg").map(|c| c.into_owned());
    if l1 != installed || l2 != installed || l3 != installed {
        out.push(viol("lookup-forms-agree", format!("installed {:?}: map {:?} closure {:?} pair {:?}", installed, l1, l2, l3)));
    }
    // a lookup answers for exactly the name that is installed: not for a prefix, an extension, another case, nothing
    for probe in ["pk", "p", "pkgx", "pkg-dev", "pkg:amd64", "PKG", "", "othe", "others"] {
        let a = map.lookup_version(probe).is_some();
        let b = closure.lookup_version(probe).is_some();
        let c = pair.lookup_version(probe).is_some();
        if a || b || c {
            out.push(viol("lookup-forms-agree", format!("installed {:?}: lookup of {:?} answers (map {}, closure {}, pair {:?} {})", installed, probe, a, b, pair.0, c)));
        }
    }
    // lossless, on trees of every provenance
    for (how, rels) in ll_variants_all(&text) {
        let got = rels.satisfied_by(closure);
        if got != want {
            out.push(viol("lossless-relations", ctx(&format!("lossless Relations::satisfied_by(closure) on the field {}", how), got)));
        }
        let entry = rels.get_entry(0).unwrap();
        let got = entry.satisfied_by(closure);
        if got != want {
            out.push(viol("lossless-entry", ctx(&format!("lossless Entry::satisfied_by(closure) on the field {}", how), got)));
        }
    }
    // lossy
    for (how, lrels) in ly_variants(&text) {
        let got = lrels.satisfied_by(closure);
        if got != want {
            out.push(viol("lossy-relations", ctx(&format!("lossy Relations::satisfied_by(closure) on the field {}", how), got)));
        }
    }
    // the same relation written with the other parts a relation may carry, and in other layouts: the evaluators look the
    // package up by its bare name and ignore the rest
    let v = if op == 0 { String::new() } else { format!(" ({} {})", OPS12[op], POOL[req]) };
    let tight = if op == 0 { String::new() } else { format!("({}{})", OPS12[op], POOL[req]) };
    for decorated in [format!("pkg:any{}", v), format!("pkg{} [amd64] <!nocheck>", v), format!("pkg{}", tight), format!("pkg\n{}", v), format!("${{misc:Depends}}, pkg{}", v), format!("pkg{}, ${{shlibs:Depends}}", v)] {
        let subst = decorated.contains('$');
        let (llr, errs) = ll::Relations::parse_relaxed(&decorated, subst);
        if errs.is_empty() {
            let got = llr.satisfied_by(closure);
            if got != want {
                out.push(viol("lossless-relations", format!("{:?} with pkg installed at {:?}: lossless says {}, Debian semantics say {}", decorated, POOL.get(inst), got, want)));
            }
        } else {
            out.push(viol("harness", format!("{:?} does not parse: {:?}", decorated, errs)));
        }
        // (the lossy reader takes substitution variables and a line break inside a relation for errors: C10's notes)
        if !subst && !decorated.contains('\n') {
            match ly::Relations::from_str(&decorated) {
                Ok(r) => {
                    let got = r.satisfied_by(closure);
                    if got != want {
                        out.push(viol("lossy-relations", format!("{:?} with pkg installed at {:?}: lossy says {}, Debian semantics say {}", decorated, POOL.get(inst), got, want)));
                    }
                }
                Err(e) => out.push(viol("harness", format!("{:?} does not parse (lossy): {}", decorated, e))),
            }
        }
    }
    let lrels = ly::Relations::from_str(&text).unwrap();
    let lrel = &lrels.0[0][0];
    for (who, got) in [
        ("lossy Relation::satisfied_by(closure)", lrel.satisfied_by(closure)),
        ("lossy Relation::satisfied_by(map)", lrel.satisfied_by(map.clone())),
        ("lossy Relation::satisfied_by(pair)", lrel.satisfied_by(pair.clone())),
    ] {
        if got != want {
            out.push(viol("lossy-relation", ctx(who, got)));
        }
    }
    out
}

const SAME_REQ: [usize; 3] = [0, 2, 4];
fn check_same(alts: &[(usize, usize)], inst: usize) -> Vec<Viol> {
    let mut out = vec![];
    let installed: Option<Version> = POOL.get(inst).map(|v| v.parse().unwrap());
    let inst_idx = if inst < POOL.len() { Some(inst) } else { None };
    let mut map: HashMap<String, Version> = HashMap::new();
    if let Some(v) = &installed {
        map.insert("pkg".into(), v.clone());
    }
    map.insert("other".into(), "1".parse().unwrap());
    let text = format!(
        "{}, other",
        alts.iter().map(|(op, req)| if *op == 0 { "pkg".to_string() } else { format!("pkg ({} {})", OPS12[*op], POOL[*req]) }).collect::<Vec<_>>().join(" | ")
    );
    let want = alts.iter().any(|(op, req)| reference_cell(*op, *req, inst_idx));
    let closure = |name: &str| -> Option<Version> { map.get(name).cloned() };
    for (how, r) in ll_variants_all(&text) {
        let got_ll = r.satisfied_by(closure);
        if got_ll != want {
            out.push(viol("lossless-same-package-alternatives", format!("field {:?} ({}) with pkg at {:?}: lossless says {}, expected {}", text, how, POOL.get(inst), got_ll, want)));
        }
    }
    for (how, r) in ly_variants(&text) {
        let got_ly = r.satisfied_by(closure);
        if got_ly != want {
            out.push(viol("lossy-same-package-alternatives", format!("field {:?} ({}) with pkg at {:?}: lossy says {}, expected {}", text, how, POOL.get(inst), got_ly, want)));
        }
    }
    out
}

const SHARED_NAMES: [&str; 3] = ["x", "y", "z (>= 1)"];
fn check_shared(entries: &[Vec<u8>], installed: u8) -> Vec<Viol> {
    let mut out = vec![];
    let mut map: HashMap<String, Version> = HashMap::new();
    for (i, n) in ["x", "y", "z"].iter().enumerate() {
        if installed & (1 << i) != 0 {
            map.insert(n.to_string(), "1".parse().unwrap());
        }
    }
    let text = entries.iter().map(|e| e.iter().map(|a| SHARED_NAMES[*a as usize]).collect::<Vec<_>>().join(" | ")).collect::<Vec<_>>().join(", ");
    let sat = |a: &u8| installed & (1 << *a) != 0;
    let want = entries.iter().all(|e| e.iter().any(sat));
    let closure = |name: &str| -> Option<Version> { map.get(name).cloned() };
    for (how, r) in ll_variants_all(&text) {
        let got = r.satisfied_by(closure);
        if got != want {
            out.push(viol("lossless-shared-packages", format!("field {:?} ({}) with installed mask {:03b}: lossless says {}, expected {}", text, how, installed, got, want)));
        }
    }
    for (how, r) in ly_variants(&text) {
        let got = r.satisfied_by(closure);
        if got != want {
            out.push(viol("lossy-shared-packages", format!("field {:?} ({}) with installed mask {:03b}: lossy says {}, expected {}", text, how, installed, got, want)));
        }
    }
    out
}

fn check_nest(entries: &[Vec<u8>]) -> Vec<Viol> {
    let mut out = vec![];
    let mut map: HashMap<String, Version> = HashMap::new();
    let mut parts = vec![];
    for (e, alts) in entries.iter().enumerate() {
        let mut ps = vec![];
        for (a, st) in alts.iter().enumerate() {
            let name = format!("p{}{}", e, a);
            ps.push(format!("{} (>= 1.0)", name));
            match st {
                0 => {
                    map.insert(name, "1.0".parse().unwrap());
                }
                1 => {
                    map.insert(name, "0.9".parse().unwrap());
                }
                _ => {}
            }
        }
        parts.push(ps.join(" | "));
    }
    let text = parts.join(", ");
    let want = entries.iter().all(|alts| alts.iter().any(|s| *s == 0));
    let closure = |name: &str| -> Option<Version> { map.get(name).cloned() };
    for (how, r) in ll_variants_all(&text) {
        let got_ll = r.satisfied_by(closure);
        if got_ll != want {
            out.push(viol("lossless-and-or", format!("field {:?} ({}) statuses {:?}: lossless says {}, expected {}", text, how, entries, got_ll, want)));
        }
        // every entry on its own, through the handle the field hands out
        for (i, (e, alts)) in r.entries().zip(entries.iter()).enumerate() {
            let want_e = alts.iter().any(|s| *s == 0);
            let got_e = e.satisfied_by(closure);
            if got_e != want_e {
                out.push(viol("lossless-entry", format!("field {:?} ({}) statuses {:?}: entry {} says {}, expected {}", text, how, entries, i, got_e, want_e)));
            }
        }
    }
    for (how, r) in ly_variants(&text) {
        let got_ly = r.satisfied_by(closure);
        if got_ly != want {
            out.push(viol("lossy-and-or", format!("field {:?} ({}) statuses {:?}: lossy says {}, expected {}", text, how, entries, got_ly, want)));
        }
    }
    out
}

impl Prop for C12 {
    type Case = C12Case;
    fn id(&self) -> &'static str {
        "C12"
    }
    fn level(&self) -> &'static str {
        "exploration"
    }
    fn rule(&self, _t: Tier) -> String {
        "(1) the complete single-relation table: {unversioned, <<, <=, =, >=, >>} x required version x installed version (or absent) over a version pool whose Debian order is hard-coded in the harness (epochs incl. an explicit zero epoch that equals no epoch, revisions, '~', '+'), evaluated by the lossless Relations/Entry evaluators and the lossy Relations/Relation evaluators through every lookup form that type-checks (closure, HashMap, (name, version) pair); (2) every AND/OR shape: all fields of <= 3 entries x 1..3 alternatives (thorough 4 x 1..3) where each alternative is satisfied / version-mismatched / absent, plus the empty field; (3) every entry of 1-3 alternatives that all name the SAME package (6 operators x 3 required versions each) x 5 installed states, followed by a second satisfied entry; all cases distinct; non-trivial = every case except the empty field".into()
    }
    fn bounds(&self, t: Tier) -> Value {
        json!({"version_pool": &POOL[..pool(t)], "cells": 6 * pool(t) * (pool(t) + 1), "max_entries": t.pick(3, 4), "max_alternatives": 3})
    }
    fn assumptions(&self) -> Vec<String> {
        vec!["the hard-coded order of the version pool is the trusted reference (written from deb-version(7))".into()]
    }
    fn n_shards(&self, t: Tier) -> usize {
        1 + 1 + t.pick(3, 4) + 1 + 1
    }
    fn explore(&self, t: Tier, shard: usize, f: &mut dyn FnMut(&C12Case) -> Verdict) {
        let n = pool(t);
        match shard {
            0 => product(&[6, n, n + 1], &mut |v| {
                if v[0] == 0 && v[1] != 0 {
                    return; // required version is irrelevant for an unversioned relation
                }
                let inst = if v[2] == n { POOL.len() } else { v[2] };
                f(&C12Case::Cell { op: v[0], req: v[1], inst });
            }),
            1 => {
                f(&C12Case::Nest { entries: vec![] });
            }
            k if k == 3 + t.pick(3, 4) => {
                // entries over three shared package names: 1-2 entries of 1-3 alternatives, 3 entries of 1-2 (thorough 1-3)
                let seqs = |max: usize| -> Vec<Vec<u8>> {
                    let mut out: Vec<Vec<u8>> = vec![];
                    let mut frontier: Vec<Vec<u8>> = vec![vec![]];
                    for _ in 0..max {
                        let mut next = vec![];
                        for s in &frontier {
                            for a in 0..3u8 {
                                let mut t2 = s.clone();
                                t2.push(a);
                                next.push(t2);
                            }
                        }
                        out.extend(next.iter().cloned());
                        frontier = next;
                    }
                    out
                };
                let (s3, s2) = (seqs(3), seqs(t.pick(2, 3)));
                for installed in 0..8u8 {
                    for a in &s3 {
                        f(&C12Case::Shared { entries: vec![a.clone()], installed });
                        for b in &s3 {
                            f(&C12Case::Shared { entries: vec![a.clone(), b.clone()], installed });
                        }
                    }
                    for a in &s2 {
                        for b in &s2 {
                            for c in &s2 {
                                f(&C12Case::Shared { entries: vec![a.clone(), b.clone(), c.clone()], installed });
                            }
                        }
                    }
                }
            }
            k if k == 2 + t.pick(3, 4) => {
                // alternatives on the same package: 1..3 alternatives x (6 operators x 3 required versions) x installed
                let per = 6 * SAME_REQ.len();
                for n_alt in 1..=3usize {
                    let mut m = vec![per; n_alt];
                    m.push(SAME_REQ.len() + 2);
                    product(&m, &mut |v| {
                        let alts: Vec<(usize, usize)> = v[..n_alt].iter().map(|x| (x / SAME_REQ.len(), SAME_REQ[x % SAME_REQ.len()])).collect();
                        if alts.iter().any(|(op, req)| *op == 0 && *req != SAME_REQ[0]) {
                            return; // required version irrelevant for an unversioned alternative
                        }
                        let iv = v[n_alt];
                        let inst = match iv {
                            0 => 1,  // between the required versions
                            1 => 2,
                            2 => 3,
                            3 => 5,
                            _ => POOL.len(),
                        };
                        f(&C12Case::SamePkg { alts, inst });
                    });
                }
            }
            k => {
                let entries = k - 1;
                // per entry: number of alternatives (1..3) and a status per alternative slot
                let mut m = vec![];
                for _ in 0..entries {
                    m.extend([3, 3, 3, 3]);
                }
                product(&m, &mut |v| {
                    let mut es = vec![];
                    for e in 0..entries {
                        let n_alt = v[e * 4] + 1;
                        let sts: Vec<u8> = (0..3).map(|a| v[e * 4 + 1 + a] as u8).collect();
                        if sts[n_alt..].iter().any(|s| *s != 0) {
                            return; // inactive slots
                        }
                        es.push(sts[..n_alt].to_vec());
                    }
                    f(&C12Case::Nest { entries: es });
                });
            }
        }
    }
    fn check(&self, c: &C12Case, st: &mut Stats) -> Vec<Viol> {
        let r = guard(100_000, || match c {
            C12Case::Cell { op, req, inst } => check_cell(*op, *req, *inst),
            C12Case::Nest { entries } => check_nest(entries),
            C12Case::SamePkg { alts, inst } => check_same(alts, *inst),
            C12Case::Shared { entries, installed } => check_shared(entries, *installed),
        });
        if !matches!(c, C12Case::Nest { entries } if entries.is_empty()) {
            st.nontrivial += 1;
        }
        match r {
            Ok(vs) => {
                if vs.is_empty() {
                    st.outcome(match c {
                        C12Case::Cell { .. } => "cell-ok",
                        C12Case::Nest { .. } => "nest-ok",
                        C12Case::SamePkg { .. } => "same-package-ok",
                        C12Case::Shared { .. } => "shared-packages-ok",
                    });
                }
                vs
            }
            Err(p) => vec![viol("panic", format!("{:?}: {}", c, panic_detail(&p)))],
        }
    }
    fn shrinks(&self, c: &C12Case) -> Vec<C12Case> {
        match c {
            C12Case::Cell { .. } => vec![],
            C12Case::Shared { entries, installed } => {
                let mut out = vec![];
                for i in 0..entries.len() {
                    if entries.len() > 1 {
                        let mut x = entries.clone();
                        x.remove(i);
                        out.push(C12Case::Shared { entries: x, installed: *installed });
                    }
                    for j in 0..entries[i].len() {
                        if entries[i].len() > 1 {
                            let mut x = entries.clone();
                            x[i].remove(j);
                            out.push(C12Case::Shared { entries: x, installed: *installed });
                        }
                    }
                }
                out
            }
            C12Case::SamePkg { alts, inst } => {
                let mut out = vec![];
                for i in 0..alts.len() {
                    if alts.len() > 1 {
                        let mut a = alts.clone();
                        a.remove(i);
                        out.push(C12Case::SamePkg { alts: a, inst: *inst });
                    }
                }
                out
            }
            C12Case::Nest { entries } => {
                let mut out = vec![];
                for e in 0..entries.len() {
                    let mut x = entries.clone();
                    x.remove(e);
                    out.push(C12Case::Nest { entries: x });
                    for a in 0..entries[e].len() {
                        if entries[e].len() > 1 {
                            let mut x = entries.clone();
                            x[e].remove(a);
                            out.push(C12Case::Nest { entries: x });
                        }
                    }
                }
                out
            }
        }
    }
    fn snippet(&self, c: &C12Case, v: &Viol) -> String {
        format!("// C12 replay: {:?}\n// clause {}: {}\n", c, v.clause, v.detail.replace('\n', "\\n"))
    }
    fn required_outcomes(&self) -> Vec<&'static str> {
        vec!["cell-ok", "nest-ok"]
    }
}
