import re
# 1. docgen menus
p = '/verif/harness/src/docgen.rs'
s = open(p).read()
s = s.replace('pub const FIRSTS: [&str; 9] = ["v", "v w", "é ü", "", "#x", ":x", "a: b", "x\\ty", "v  "];',
              'pub const FIRSTS: [&str; 13] = ["v", "v w", "é ü", "", "#x", ":x", "a: b", "x\\ty", "v  ", "日本語 😀", "v\\u{a0}w\\t", "ends:", "\\u{202e}rtl"];')
s = s.replace('pub const CONTS: [&str; 8] = ["", "w", "é", ".", "a:b", ":x", "-x", "<blank>"];',
              'pub const CONTS: [&str; 10] = ["", "w", "é", ".", "a:b", ":x", "-x", "w  ", "😀 z\\tq", "<blank>"];')
s = s.replace('pub const COLONS: [&str; 4] = [": ", ":", ":\\t", ":  "];', 'pub const COLONS: [&str; 5] = [": ", ":", ":\\t", ":  ", ":\\t "];')
s = s.replace('const FIELD_MENUS: [usize; FIELD_SLOTS] = [3, 7, 4, 9, 8, 4, 8, 4];', 'const FIELD_MENUS: [usize; FIELD_SLOTS] = [3, 7, 5, 13, 10, 4, 10, 4];')
open(p, 'w').write(s)

# 5. relgen profile menus
p = '/verif/harness/src/relgen.rs'
s = open(p).read()
s = s.replace('pub const PROFILES: [&[&[&str]]; 5] = [&[], &[&["x"]], &[&["!x"]], &[&["x", "y"]], &[&["!x", "y"], &["z"]]];',
              'pub const PROFILES: [&[&[&str]]; 8] = [&[], &[&["x"]], &[&["!x"]], &[&["x", "y"]], &[&["!x", "y"], &["z"]], &[&["x", "!y"]], &[&["!x", "!y", "z"]], &[&["x"], &["y", "!z"], &["!w"]]];')
s = s.replace('const REL_MENUS: [usize; REL_SLOTS] = [2, 3, 6, 3, 5, 5, 4, 3, 4, 4, 3];', 'const REL_MENUS: [usize; REL_SLOTS] = [2, 3, 6, 3, 5, 8, 4, 3, 4, 4, 3];')
open(p, 'w').write(s)
p = '/verif/harness/src/props/c10.rs'
s = open(p).read()
s = s.replace('product(&[3, 6, 3, 5, 5], &mut |pv| {', 'product(&[3, 6, 3, 5, 8], &mut |pv| {')
s = s.replace('"single_relation_parts_product": 2 * 3 * 6 * 3 * 5 * 5', '"single_relation_parts_product": 2 * 3 * 6 * 3 * 5 * 8')
open(p, 'w').write(s)

# 2. C04 values / keys for thorough
p = '/verif/harness/src/props/c04.rs'
s = open(p).read()
s = s.replace('Tier::Thorough => &["x", "x\\ny", "é", ":c\\nd"],', 'Tier::Thorough => &["x", "x\\ny", "é  ", ":c\\nd", "#h\\ny"],')
s = s.replace('Tier::Quick => &["x", "x\\ny", ":c\\nd"],', 'Tier::Quick => &["x", "x\\ny", ":c\\nd", "#h  "],')
open(p, 'w').write(s)

# 11. C07 formatter that indents its lines
p = '/verif/harness/src/props/c07.rs'
s = open(p).read()
s = s.replace('''fn fmt_words(_k: &str, v: &str) -> String {
    v.split_whitespace().collect::<Vec<_>>().join("\\n")
}''', '''fn fmt_words(_k: &str, v: &str) -> String {
    v.split_whitespace().collect::<Vec<_>>().join("\\n")
}
/// multi-line output that starts on the next line and carries its own (odd) indentation and trailing blanks
fn fmt_indented(_k: &str, v: &str) -> String {
    let lines: Vec<String> = v.split('\\n').map(|l| l.trim()).filter(|l| !l.is_empty()).map(|l| format!("   {} ", l)).collect();
    if lines.len() > 1 {
        format!("\\n{}", lines.join("\\n"))
    } else {
        lines.concat()
    }
}''')
s = s.replace('''        0 => None,
        1 => Some(&fmt_identity),
        _ => Some(&fmt_words),
    };
    p.wrap_and_sort(indentation(c), c.iel, oneliner(c), se, fv)''', '''        0 => None,
        1 => Some(&fmt_identity),
        2 => Some(&fmt_words),
        _ => Some(&fmt_indented),
    };
    p.wrap_and_sort(indentation(c), c.iel, oneliner(c), se, fv)''')
s = s.replace('''            let fv: Option<&dyn Fn(&str, &str) -> String> = match c.fmt {
                0 => None,
                1 => Some(&fmt_identity),
                _ => Some(&fmt_words),
            };''', '''            let fv: Option<&dyn Fn(&str, &str) -> String> = match c.fmt {
                0 => None,
                1 => Some(&fmt_identity),
                2 => Some(&fmt_words),
                _ => Some(&fmt_indented),
            };''')
s = s.replace('    vec![4, 2, 3, 3, 3, 3]', '    vec![4, 2, 3, 3, 3, 4]')
s = s.replace('pub fmt: usize,      // 0..3: None, identity, one word per line', 'pub fmt: usize,      // 0..4: None, identity, one word per line, re-indented lines starting on the next line')
s = s.replace('648 settings', '864 settings').replace('x 3 formatters)', 'x 4 formatters)').replace('"settings_per_document": 648', '"settings_per_document": 864')
open(p, 'w').write(s)
print('ok')
