#!/usr/bin/env python3
"""Mechanical mutation campaign against the checks (a test OF the machinery, not a verification technique).

usage: tools/mutate.py setup            - scratch copy of /repo (git worktree) and of the harness under /tmp/mut
       tools/mutate.py list             - print the candidate mutants (file:line:operator)
       tools/mutate.py run [--every N] [--offset K] [--limit M] [--log FILE]
                                        - for every N-th candidate: apply it to the scratch repo, run the repository's own
                                          suite; if it still passes, run all 20 quick checks built against the scratch repo
                                          and record which ones report a violation
       tools/mutate.py teardown         - remove /tmp/mut (worktree and build output)

Nothing here touches /repo's working tree or /verif's target directory, so it can run next to other work.
Results: one JSON line per mutant in the log: {"id", "file", "line", "op", "before", "after", "outcome", "caught_by"} with
outcome in {"no-compile", "killed-by-suite", "caught", "SURVIVED"}.
"""
import json, os, re, shutil, subprocess, sys, time

MUT = '/tmp/mut'
REPO = MUT + '/repo'
VER = MUT + '/verif'
FILES = [
    'src/lex.rs', 'src/lossless.rs', 'src/lossy.rs', 'src/common.rs', 'src/convert.rs',
    'deb822-derive/src/lib.rs',
    'debian-control/src/relations.rs', 'debian-control/src/lossless/relations.rs', 'debian-control/src/lossy/relations.rs',
    'debian-control/src/pgp.rs', 'debian-control/src/vcs.rs', 'debian-control/src/fields.rs', 'debian-control/src/lib.rs',
    'debian-control/src/lossless/control.rs', 'debian-control/src/lossless/apt.rs', 'debian-control/src/lossless/changes.rs',
    'debian-control/src/lossless/buildinfo.rs', 'debian-control/src/lossy/control.rs', 'debian-control/src/lossy/apt.rs',
    'debian-control/src/lossy/buildinfo.rs', 'debian-control/src/lossy/ftpmaster.rs',
    'debian-copyright/src/lib.rs', 'debian-copyright/src/lossless.rs', 'debian-copyright/src/lossy.rs', 'debian-copyright/src/glob.rs',
    'dep3/src/lib.rs', 'dep3/src/lossless.rs', 'dep3/src/lossy.rs', 'dep3/src/fields.rs',
    'apt-sources/src/lib.rs', 'apt-sources/src/signature.rs',
]
# (name, regex, replacement) applied to the code part of a line; at most one occurrence (the first) per operator and line
OPS = [
    ('eq->ne', r' == ', ' != '),
    ('ne->eq', r' != ', ' == '),
    ('and->or', r' && ', ' || '),
    ('or->and', r' \|\| ', ' && '),
    ('lt->le', r' < (?=[a-z0-9(])', ' <= '),
    ('le->lt', r' <= ', ' < '),
    ('gt->ge', r' > (?=[a-z0-9(])', ' >= '),
    ('ge->gt', r' >= ', ' > '),
    ('plus1->plus0', r'\+ 1\b', '+ 0'),
    ('minus1->minus0', r'- 1\b', '- 0'),
    ('true->false', r'\btrue\b', 'false'),
    ('false->true', r'\bfalse\b', 'true'),
    ('drop-not', r'(?<![=!<>])!(?=[a-z(])(?!\()', ''),
    ('skip1->skip0', r'\.skip\(1\)', '.skip(0)'),
    ('some->none', r'\breturn Some\([^;]*\);', 'return None;'),
    ('is_some->is_none', r'\.is_some\(\)', '.is_none()'),
    ('is_none->is_some', r'\.is_none\(\)', '.is_some()'),
    ('is_empty-negate', r'(?<!!)\b([a-z_.]+)\.is_empty\(\)', r'!\1.is_empty()'),
    ('break->continue', r'\bbreak;', 'continue;'),
    ('first->last', r'\.next\(\)(?=\s*[;)?.]|$)', '.last()'),
    ('find->rfind-ish', r'\.splitn\(2, ', '.rsplitn(2, '),
    ('trim->noop', r'\.trim\(\)', ''),
    ('trim_start->trim_end', r'\.trim_start\(\)', '.trim_end()'),
    ('starts->ends', r'\.starts_with\(', '.ends_with('),
    ('ends->starts', r'\.ends_with\(', '.starts_with('),
]


def sh(cmd, cwd=None, timeout=None, env=None):
    import signal
    e = dict(os.environ, CARGO_NET_OFFLINE='true')
    if env:
        e.update(env)
    p = subprocess.Popen(cmd, shell=True, cwd=cwd, stdout=subprocess.PIPE, stderr=subprocess.STDOUT, text=True, env=e, start_new_session=True)
    try:
        out, _ = p.communicate(timeout=timeout)
        return p.returncode, out
    except subprocess.TimeoutExpired:
        try:
            os.killpg(p.pid, signal.SIGKILL)
        except Exception:
            pass
        out, _ = p.communicate()
        return 124, 'TIMEOUT\n' + (out or '')


def setup():
    os.makedirs(MUT, exist_ok=True)
    if not os.path.isdir(REPO):
        rc, out = sh('git -C /repo worktree add --detach %s HEAD' % REPO)
        assert rc == 0, out
    if os.path.isdir(VER):
        shutil.rmtree(VER)
    os.makedirs(VER)
    shutil.copytree('/verif/harness', VER + '/harness', ignore=shutil.ignore_patterns('target'))
    for f in ('known_findings.jsonl', 'properties.jsonl'):
        shutil.copy('/verif/' + f, VER + '/' + f)
    ct = open(VER + '/harness/Cargo.toml').read().replace('"/repo/', '"%s/' % REPO).replace('"/repo"', '"%s"' % REPO)
    open(VER + '/harness/Cargo.toml', 'w').write(ct)
    os.makedirs(VER + '/harness/.cargo', exist_ok=True)
    open(VER + '/harness/.cargo/config.toml', 'w').write('[net]\noffline = true\n\n[build]\ntarget-dir = "%s/vtarget"\n' % MUT)
    # warm both builds
    rc, out = sh('cargo test --workspace --no-fail-fast --offline 2>&1 | tail -3', cwd=REPO, env={'CARGO_TARGET_DIR': MUT + '/rtarget'})
    print(out[-400:])
    rc, out = sh('cargo build --release --offline 2>&1 | tail -3', cwd=VER + '/harness')
    print(out[-400:])


def candidates():
    out = []
    for f in FILES:
        path = os.path.join('/repo', f)
        if not os.path.exists(path):
            continue
        lines = open(path).read().split('\n')
        in_tests = False
        for i, line in enumerate(lines):
            st = line.strip()
            if st.startswith('#[cfg(test)]'):
                in_tests = True
            if in_tests:
                continue
            if st.startswith('//') or st.startswith('#[') or 'verif' in line or st.startswith('use ') or 'assert' in st:
                continue
            code = line.split('//')[0]
            if '"' in code and code.count('"') % 2 == 1:
                continue
            for name, pat, rep in OPS:
                m = re.search(pat, code)
                if not m:
                    continue
                # do not mutate inside string literals
                if code[:m.start()].count('"') % 2 == 1:
                    continue
                new = code[:m.start()] + re.sub(pat, rep, code[m.start():], count=1) + line[len(code):]
                if new != line:
                    out.append({'file': f, 'line': i + 1, 'op': name, 'before': line, 'after': new})
    return out


def run(every, offset, limit, log):
    cands = candidates()
    picked = cands[offset::every]
    if limit:
        picked = picked[:limit]
    done = set()
    if os.path.exists(log):
        for l in open(log):
            try:
                done.add(json.loads(l)['id'])
            except Exception:
                pass
    print('candidates', len(cands), 'picked', len(picked), 'already done', len(done), flush=True)
    for m in picked:
        mid = '%s:%d:%s' % (m['file'], m['line'], m['op'])
        if mid in done:
            continue
        path = os.path.join(REPO, m['file'])
        orig = open(path).read()
        lines = orig.split('\n')
        if lines[m['line'] - 1] != m['before']:
            continue
        lines[m['line'] - 1] = m['after']
        open(path, 'w').write('\n'.join(lines))
        t0 = time.time()
        rec = dict(m, id=mid, caught_by=[])
        try:
            rc, out = sh('cargo test --workspace --no-fail-fast --offline 2>&1', cwd=REPO, timeout=150, env={'CARGO_TARGET_DIR': MUT + '/rtarget'})
            if 'error[' in out or 'error: could not compile' in out:
                rec['outcome'] = 'no-compile'
            elif rc != 0:
                rec['outcome'] = 'killed-by-suite'
            else:
                rc, out = sh('cargo build --release --offline 2>&1', cwd=VER + '/harness', timeout=1500)
                if rc != 0:
                    rec['outcome'] = 'no-compile'
                else:
                    for i in range(1, 21):
                        cid = 'C%02d' % i
                        rc, out = sh('%s/vtarget/release/verif %s --tier quick 2>&1 | tail -2' % (MUT, cid), cwd=VER, timeout=400, env={'VERIF_ROOT': VER})
                        if 'VIOLATION' in out or rc == 1 or 'violations=0' not in out:
                            rec['caught_by'].append(cid)
                    rec['outcome'] = 'caught' if rec['caught_by'] else 'SURVIVED'
        finally:
            open(path, 'w').write(orig)
        rec['seconds'] = round(time.time() - t0)
        open(log, 'a').write(json.dumps(rec, ensure_ascii=False) + '\n')
        print(rec['outcome'], mid, rec['caught_by'], rec['seconds'], 's', flush=True)


def teardown():
    sh('git -C /repo worktree remove --force %s' % REPO)
    sh('git -C /repo worktree prune')
    shutil.rmtree(MUT, ignore_errors=True)


if __name__ == '__main__':
    cmd = sys.argv[1] if len(sys.argv) > 1 else 'list'
    args = sys.argv[2:]
    def opt(name, default):
        return type(default)(args[args.index(name) + 1]) if name in args else default
    if cmd == 'setup':
        setup()
    elif cmd == 'list':
        c = candidates()
        for m in c:
            print('%s:%d:%s' % (m['file'], m['line'], m['op']))
        print(len(c), 'candidates', file=sys.stderr)
    elif cmd == 'run':
        run(opt('--every', 10), opt('--offset', 0), opt('--limit', 0), opt('--log', '/verif/notes/mutation_log.jsonl'))
    elif cmd == 'teardown':
        teardown()
