//! C06 — lossy and lossless deb822 readers agree on content (DESIGN 3/C06).

use crate::core::*;
use crate::docgen::*;
use crate::kdev::*;
use crate::props::c01::{deb822_space, explore_strs, StrCase};
use crate::props::c03::{doc_shards, k_for, shrink_doc, DocCase, DocShard};
use crate::strings::shrink_string;
use deb822_lossless::lossy;
use deb822_lossless::Deb822;
use serde::{Deserialize, Serialize};
use serde_json::{json, Value};
use std::str::FromStr;

#[derive(Clone, Serialize, Deserialize, PartialEq, Debug)]
pub enum C06Case {
    Str(StrCase),
    Doc(DocCase),
}

/// terminator variants (codes stored in DocCase::junk next to c03's corruption codes)
const CR_ONE: usize = 100;
const CRLF_ONE: usize = 101;
const CR_ALL: usize = 102;

fn cr_variant(text: &str, pos: usize, j: usize) -> Option<String> {
    let lines: Vec<&str> = text.split_inclusive('\n').collect();
    match j {
        CR_ONE | CRLF_ONE => {
            let l = lines.get(pos)?;
            let body = l.strip_suffix('\n')?;
            let mut out = String::new();
            for (i, x) in lines.iter().enumerate() {
                if i == pos {
                    out.push_str(body);
                    out.push_str(if j == CR_ONE { "\r" } else { "\r\n" });
                } else {
                    out.push_str(x);
                }
            }
            Some(out)
        }
        CR_ALL => {
            if pos != 0 || !text.contains('\n') {
                return None;
            }
            Some(text.replace('\n', "\r"))
        }
        _ => None,
    }
}
fn variant(text: &str, pos: usize, j: usize) -> Option<String> {
    if j >= 100 {
        cr_variant(text, pos, j)
    } else {
        crate::props::c03::corrupt(text, pos, j)
    }
}

pub struct C06;

type Content = Vec<Vec<(String, Vec<String>)>>;

fn lines_of(v: &str) -> Vec<String> {
    v.split(['\n', '\r']).filter(|l| !l.is_empty()).map(|l| l.to_string()).collect()
}

pub fn lossless_content(d: &Deb822) -> Content {
    d.paragraphs()
        .map(|p| p.items().map(|(k, v)| (k, lines_of(&v))).collect())
        .collect()
}

pub fn lossy_content(d: &lossy::Deb822) -> Content {
    d.iter()
        .map(|p| p.iter().map(|(k, v)| (k.to_string(), lines_of(v))).collect())
        .collect()
}

fn compare(text: &str, st: &mut Stats, well_formed: bool) -> Vec<Viol> {
    let r = guard(budget_for(text.len()), || {
        let mut out = vec![];
        let ll = Deb822::from_str(text);
        let ly = lossy::Deb822::from_str(text);
        let class = match (ll.is_ok(), ly.is_ok()) {
            (true, true) => "both-accept",
            (true, false) => "only-lossless-accepts",
            (false, true) => "only-lossy-accepts",
            (false, false) => "both-reject",
        };
        if well_formed && class != "both-accept" {
            out.push(viol(
                "both-accept-well-formed",
                format!("text {:?}: lossless ok={} lossy ok={} ({:?})", text, ll.is_ok(), ly.is_ok(), ly.as_ref().err().map(|e| e.to_string())),
            ));
        }
        // the lossy reader over bytes that arrive in short reads gives what it gives for the text; a failing reader an error
        let chunks: &[usize] = if text.is_ascii() { &[1] } else { &[1, 2, 3] };
        for k in chunks {
            let via = lossy::Deb822::from_reader(crate::strings::ChunkReader::new(text.as_bytes(), *k));
            let same = match (&via, &ly) {
                (Ok(a), Ok(b)) => a == b,
                (Err(_), Err(_)) => true,
                _ => false,
            };
            if !same {
                out.push(viol("lossy-reader-agrees", format!("text {:?}: from_reader over {}-byte reads gives {:?}, from_str {:?}", text, k, via.as_ref().map_err(|e| e.to_string()), ly.as_ref().map_err(|e| e.to_string()))));
            }
        }
        if !text.is_empty() && lossy::Deb822::from_reader(crate::strings::ChunkReader::failing(text.as_bytes(), 2, text.len() / 2)).is_ok() {
            out.push(viol("lossy-reader-agrees", format!("text {:?}: a reader failing half-way yields a document", text)));
        }
        if let (Ok(a), Ok(b)) = (&ll, &ly) {
            let (ca, cb) = (lossless_content(a), lossy_content(b));
            if ca != cb {
                out.push(viol("same-content", format!("text {:?}: lossless {:?} lossy {:?}", text, ca, cb)));
            }
            // single-paragraph reader
            match lossy::Paragraph::from_str(text) {
                Ok(p) => {
                    let got: Vec<(String, Vec<String>)> = p.iter().map(|(k, v)| (k.to_string(), lines_of(v))).collect();
                    if ca.len() != 1 || ca[0] != got {
                        out.push(viol("lossy-paragraph-reader", format!("text {:?}: paragraph {:?} lossless {:?}", text, got, ca)));
                    }
                }
                Err(_) => {
                    if ca.len() == 1 {
                        out.push(viol("lossy-paragraph-reader", format!("text {:?}: single paragraph rejected", text)));
                    }
                }
            }
        }
        (out, class)
    });
    match r {
        Ok((vs, class)) => {
            st.outcome(class);
            vs
        }
        Err(p) => {
            st.outcome("panic");
            // a reader crash is C02's business unless the text is a well-formed document
            if well_formed {
                vec![viol("both-accept-well-formed", format!("text {:?}: {}", text, panic_detail(&p)))]
            } else {
                vec![]
            }
        }
    }
}

impl Prop for C06 {
    type Case = C06Case;
    fn id(&self) -> &'static str {
        "C06"
    }
    fn level(&self) -> &'static str {
        "model_checking"
    }
    fn rule(&self, _t: Tier) -> String {
        "(a) every string of C01's character-class and line-template spaces (full input tries; states = strings) C01's documents with one token stretched to the limits of the narrow integer types, C01's witness strings (every ASCII character in every lexer mode) and every field-name character is read by both readers and, when both accept, the paragraphs / names / non-blank value lines are compared, as is lossy::Paragraph::from_str; (b) every C03 document (<= k layout deviations per skeleton) must be accepted by both and read identically; (c) every single-line corruption (junk line inserted, colon deleted, indentation removed) of every k<=1 document: where both readers still accept, they must agree; (d) every k<=1 document (k<=2 on the one- and two-field skeletons) with the terminator of one line (each in turn) replaced by a bare CR or by CR LF, and with all terminators replaced by CR; non-trivial = distinct case accepted by both readers with at least one field".into()
    }
    fn bounds(&self, t: Tier) -> Value {
        json!({"string_spaces": deb822_space(t).describe(), "documents": "C03 generator, same k per skeleton"})
    }
    fn assumptions(&self) -> Vec<String> {
        vec!["value lines are compared after splitting on LF/CR and dropping empty lines (the statement says 'non-blank value lines')".into()]
    }
    fn n_shards(&self, t: Tier) -> usize {
        deb822_space(t).n_shards() + doc_shards(true).len()
    }
    fn explore(&self, t: Tier, shard: usize, f: &mut dyn FnMut(&C06Case) -> Verdict) {
        let sp = deb822_space(t);
        if shard < sp.n_shards() {
            if shard == 0 {
                // one token of every kind stretched to the limits of the narrow integer types
                for s in crate::props::c01::long_token_docs() {
                    f(&C06Case::Str(StrCase { s, fresh: false }));
                }
                // every ASCII character and the sample of non-ASCII ones in every lexer mode (C01's witness strings), and every
                // field-name character (C03's clause): the lossy reader shares the lexer but not the parser
                for s in crate::props::c01::witness_strings() {
                    f(&C06Case::Str(StrCase { s, fresh: false }));
                }
                for cp in 33u32..127 {
                    let ch = char::from_u32(cp).unwrap();
                    if ch != ':' {
                        f(&C06Case::Str(StrCase { s: format!("X{}y: v\nOther: w\n", ch), fresh: false }));
                        f(&C06Case::Str(StrCase { s: format!("k{}: v\n w\n\n{}k: x\n", ch, ch), fresh: false }));
                    }
                }
            }
            explore_strs(&sp, shard, &mut |c| f(&C06Case::Str(c.clone())));
            return;
        }
        match doc_shards(true)[shard - sp.n_shards()] {
            DocShard::Base(sk) => kdev_shard(&menus(sk), k_for(t, sk), None, &mut |v| {
                f(&C06Case::Doc(DocCase { skel: sk, v: v.to_vec(), junk: None, name_char: None }));
            }),
            DocShard::First(sk, i) => kdev_shard(&menus(sk), k_for(t, sk), Some(i), &mut |v| {
                if render(sk, v).is_some() {
                    f(&C06Case::Doc(DocCase { skel: sk, v: v.to_vec(), junk: None, name_char: None }));
                }
            }),
            DocShard::Reject(sk) => {
                // mutated documents: every single-line corruption of every k<=1 layout (most are rejected by both readers;
                // where both still accept, they must agree)
                let m = menus(sk);
                let mut go = |v: &[usize]| {
                    if let Some(d) = render(sk, v) {
                        let n = d.text.split_inclusive('\n').count();
                        for pos in 0..=n {
                            for j in 0..crate::props::c03::N_CORRUPTIONS {
                                if crate::props::c03::corrupt(&d.text, pos, j).is_some() {
                                    f(&C06Case::Doc(DocCase { skel: sk, v: v.to_vec(), junk: Some((pos, j)), name_char: None }));
                                }
                            }
                        }
                    }
                };
                kdev_shard(&m, 1, None, &mut go);
                for i in 0..m.len() {
                    kdev_shard(&m, 1, Some(i), &mut go);
                }
                // carriage returns: every k<=1 document with the terminator of ONE line (each in turn) replaced by a bare
                // CR, by CR LF, and with ALL terminators replaced by CR
                let mut go_cr = |v: &[usize]| {
                    if let Some(d) = render(sk, v) {
                        let n = d.text.split_inclusive('\n').count();
                        for pos in 0..=n {
                            for j in [CR_ONE, CRLF_ONE, CR_ALL] {
                                if cr_variant(&d.text, pos, j).is_some() {
                                    f(&C06Case::Doc(DocCase { skel: sk, v: v.to_vec(), junk: Some((pos, j)), name_char: None }));
                                }
                            }
                        }
                    }
                };
                // (two deviations on the small skeletons: a value needs two continuation lines for a CR between them)
                let kk = if sk.paras * sk.fields <= 2 { 2 } else { 1 };
                kdev_shard(&m, kk, None, &mut go_cr);
                for i in 0..m.len() {
                    kdev_shard(&m, kk, Some(i), &mut go_cr);
                }
            }
        }
    }
    fn check(&self, c: &C06Case, st: &mut Stats) -> Vec<Viol> {
        let before = st.outcomes.get("both-accept").copied().unwrap_or(0);
        let (vs, fresh) = match c {
            C06Case::Str(s) => (compare(&s.s, st, false), s.fresh && s.s.contains(':')),
            C06Case::Doc(d) => match (render(d.skel, &d.v), d.junk) {
                (Some(doc), None) => (compare(&doc.text, st, true), true),
                (Some(doc), Some((pos, j))) => match variant(&doc.text, pos, j) {
                    Some(text) => (compare(&text, st, false), true),
                    None => (vec![], false),
                },
                (None, _) => (vec![], false),
            },
        };
        let after = st.outcomes.get("both-accept").copied().unwrap_or(0);
        if fresh && after > before {
            st.nontrivial += 1;
        }
        vs
    }
    fn shrinks(&self, c: &C06Case) -> Vec<C06Case> {
        match c {
            C06Case::Str(s) => shrink_string(&s.s).into_iter().map(|s| C06Case::Str(StrCase { s, fresh: false })).collect(),
            C06Case::Doc(d) => {
                let mut v: Vec<C06Case> = shrink_doc(d).into_iter().map(C06Case::Doc).collect();
                if let Some(doc) = render(d.skel, &d.v) {
                    // a well-formed document's violation may also be reproducible as a plain string
                    let _ = doc;
                }
                v.truncate(200);
                v
            }
        }
    }
    fn snippet(&self, c: &C06Case, v: &Viol) -> String {
        let text = match c {
            C06Case::Str(s) => s.s.clone(),
            C06Case::Doc(d) => {
                let t = render(d.skel, &d.v).map(|d| d.text).unwrap_or_default();
                match d.junk {
                    Some((pos, j)) => variant(&t, pos, j).unwrap_or(t),
                    None => t,
                }
            }
        };
        format!(
            "#[test]\nfn c06_replay() {{\n    use std::str::FromStr;\n    let text = {:?};\n    let a = deb822_lossless::Deb822::from_str(text);\n    let b = deb822_lossless::lossy::Deb822::from_str(text);\n    // clause {}: {}\n    println!(\"{{:?}} {{:?}}\", a.is_ok(), b);\n}}\n",
            text,
            v.clause,
            v.detail.replace('\n', "\\n")
        )
    }
    fn required_outcomes(&self) -> Vec<&'static str> {
        vec!["both-accept", "both-reject"]
    }
}
