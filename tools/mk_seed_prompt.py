#!/usr/bin/env python3
"""usage: mk_seed_prompt.py <property id> <worktree> > prompt.txt
Builds the prompt given to a seeding sub-agent: the property text only (from properties.jsonl) plus one-line summaries
of the changes already kept for that property (so that the agent looks elsewhere). Nothing about the checks."""
import glob, json, os, sys
pid, wt = sys.argv[1], sys.argv[2]
prop = None
for l in open('/verif/properties.jsonl'):
    d = json.loads(l)
    if d['id'] == pid:
        prop = d
used = []
for m in sorted(glob.glob('/verif/seeded/*/meta.json')):
    d = json.load(open(m))
    if d.get('breaks_property') == pid and d.get('summary'):
        used.append(d['summary'][:600])
a = prop['anchors']
print(f"""You are given a scratch git worktree of the Rust workspace jelmer/deb822-lossless at {wt} (lossless and lossy parsers/editors for Debian deb822 files; crates: the root crate deb822-lossless, deb822-derive, debian-control, debian-copyright, dep3, apt-sources). No network is available; build and test offline only: `cd {wt} && cargo test --workspace --no-fail-fast --offline`. Work ONLY inside {wt}; do not look at or touch any other directory (in particular not /verif, not /repo, and nothing under /root, e.g. no memory or notes files).

Below is a semantic property the library is supposed to satisfy. YOUR TASK: design ONE change to the library's source code (not to its tests) that BREAKS this property while (a) everything still compiles and (b) the existing test suite (unit tests and doc tests, command above) still passes completely, and provide a DEMONSTRATION: a small Rust integration test that FAILS with your change applied and PASSES on the unchanged code.

Requirements for the change:
 - It must be a realistic defect of the kind a maintainer could introduce in a refactoring or "optimisation": an off-by-one, a wrong branch or condition, a misplaced reset, a cursor/offset/index mistake, a swapped argument, a stale handle or cached value, a separator inserted in the wrong place, two cooperating sites that each look fine alone, etc. Keep it small (a few lines).
 - It must need something SPECIFIC to manifest: a particular multi-step sequence of operations, an unusual (but in-domain) input, a particular combination of settings, or a particular state reached only after earlier steps. It must NOT be something ordinary use would expose at once (that is why the existing tests must keep passing), and it must not simply delete functionality or make a function panic unconditionally.
 - The violation must be of THIS property as stated (read the statement and its quantifier carefully: the triggering input or history must be inside the quantified domain, and the wrong behaviour must contradict a sentence of the statement).
 - Do not touch src/verif.rs or any line guarded by the cargo feature `verif-hooks`.

Deliverables, all under {wt}/SEED/ :
 1. patch.diff  - `git diff` of the library change only (applies with `git apply` to the unchanged tree; do not include the demo or SEED files in it).
 2. demo.rs - a self-contained Rust integration test (uses only the public API of the workspace crates) plus, in a comment at the top, the exact path where it must be placed (e.g. {wt}/debian-control/tests/seed_demo.rs or {wt}/tests/seed_demo.rs) and the exact command that runs it.
 3. meta.json - {{"property": "<id>", "summary": "<what the change does>", "needs": "<what is needed for it to manifest>", "demo_path": "<path relative to the worktree where demo.rs goes>", "demo_command": "<command that runs it>", "commands": ["<commands you ran>"], "results": {{"suite_with_patch": "...", "demo_with_patch": "...", "demo_without_patch": "..."}}}}.
Verify all three facts yourself before finishing: with the patch the full suite passes; with the patch the demo fails; without the patch the demo passes. Leave the worktree with the patch NOT applied (git checkout the library files) and the demo file only under SEED/. Final answer: a short summary of the change and the three verification results.
""")
if used:
    print("Changes based on the following ideas have ALREADY been made by someone else for this property; choose a clearly DIFFERENT mechanism, code location and trigger (do not just vary them):")
    for u in used:
        print(" - " + u.replace('\n', ' '))
    print()
print("PROPERTY")
print(f"Property {pid}: {prop['title']}\n")
print("Statement: " + prop['statement'] + "\n")
print("Quantified over: " + prop['quantifier']['text'] + "\n")
print("Why the existing tests cannot settle it: " + prop['why_tests_cant'] + "\n")
print("Relevant source files: " + ", ".join(a['files']))
print("Mechanisms: " + "; ".join(f"{m['name']} ({m['where']})" for m in a['mechanism']))
print("Observed at: " + "; ".join(a['observe_at']))
