//! C18 rows: one `TypeRow` per typed field value family.

use crate::props::c18::TypeRow;
use std::str::FromStr;

/// Row for a keyword enumeration whose values are listed exhaustively.
macro_rules! enum_row {
    ($ty:path, $name:literal, [$($variant:expr),+], keywords = [$($kw:literal),+], case_insensitive = $ci:literal) => {{
        fn n() -> usize { [$(stringify!($variant)),+].len() }
        fn value(i: usize) -> (String, String, Result<String, String>) {
            let vals = vec![$($variant),+];
            let v = &vals[i];
            let text = v.to_string();
            let back = <$ty>::from_str(&text).map(|b| format!("{:?}", b)).map_err(|e| format!("{:?}", e));
            (format!("{:?}", v), text, back)
        }
        fn reprint(s: &str) -> Result<String, String> {
            // (&v): apt_sources::YesNoForce implements ToString for the reference only
            <$ty>::from_str(s).map(|v| (&v).to_string()).map_err(|e| format!("{:?}", e))
        }
        TypeRow { ty: $name, n_values: n, value, canonical: &[$($kw),+], reprint, keywords: &[$($kw),+], case_insensitive: $ci, filter: None }
    }};
}

/// Row for a record type: `$values` is an expression building Vec<$ty> (the full product of its menus).
macro_rules! record_row {
    ($ty:path, $name:literal, values = $values:expr, canonical = [$($c:literal),*]) => {{
        fn all() -> Vec<$ty> { $values }
        fn n() -> usize { all().len() }
        fn value(i: usize) -> (String, String, Result<String, String>) {
            let v = &all()[i];
            let text = v.to_string();
            let back = <$ty>::from_str(&text).map(|b| format!("{:?}", b)).map_err(|e| format!("{:?}", e));
            (format!("{:?}", v), text, back)
        }
        fn reprint(s: &str) -> Result<String, String> {
            <$ty>::from_str(s).map(|v| v.to_string()).map_err(|e| format!("{:?}", e))
        }
        TypeRow { ty: $name, n_values: n, value, canonical: &[$($c),*], reprint, keywords: &[], case_insensitive: false, filter: None }
    }};
}

/// The three-token checksum records all have the shape {<hash field>, size, filename}.
macro_rules! checksum_row {
    ($ty:ident, $name:literal, $hash:ident) => {
        record_row!($ty, $name,
            values = {
                let mut out = vec![];
                for h in TOKENS { for s in SIZES { for f in TOKENS {
                    out.push($ty { $hash: h.to_string(), size: s, filename: f.to_string() });
                }}}
                out
            },
            canonical = ["da39a3ee 0 empty", "abc 18446744073709551615 x.y_1", "é 42 é"])
    };
}

pub const TOKENS: [&str; 5] = ["a", "0", "x.y_1", "é", "Ab.C"];
/// free text that collides with a keyword of the same family in ANOTHER letter case, or carries upper-case letters
/// (a reader that folds case to recognise keywords must not fold the text it passes through)
/// free text that is a keyword of a NEIGHBOURING family (the Origin categories, alone and in front of ", "): a reader that
/// borrows another field's helper strips it
pub const CROSS_TEXTS: [&str; 6] = ["upstream", "upstream, 2.0", "vendor, commit:abc", "backport", "other", "commit"];
pub const CASE_TEXTS: [&str; 7] = ["No", "NO", "Not-Needed", "Yes", "Commit:ABC", "Vendor", "https://Example.COM/Ticket/Display.html?Id=42"];
pub const SIZES: [usize; 4] = [0, 1, 42, usize::MAX];

/// Repository locations for the VCS rows (whitespace-free).
const URLS: [&str; 6] = ["https://example.com/r.git", "git@host:a/b", "a", "é", "https://Salsa.Debian.org/Foo/Bar.git", "https://example.com/r/?q=1"];
const BRANCHES: [Option<&str>; 4] = [None, Some("main"), Some("debian/sid"), Some("Debian/Sid")];
const SUBPATHS: [Option<&str>; 4] = [None, Some("sub"), Some("a/b"), Some("Sub/Dir")];

fn priorities() -> Vec<debian_control::fields::Priority> {
    use debian_control::fields::Priority;
    vec![Priority::Required, Priority::Important, Priority::Standard, Priority::Optional, Priority::Extra]
}

// ---------------------------------------------------------------------------------------------
// vcs::Vcs (no FromStr / Display / PartialEq): to_field() -> from_field(name, text), Debug compare
// ---------------------------------------------------------------------------------------------
mod vcs_row {
    use super::*;
    use debian_control::vcs::Vcs;

    fn o(x: Option<&str>) -> Option<String> {
        x.map(|s| s.to_string())
    }

    pub fn all() -> Vec<Vcs> {
        let mut out = vec![];
        for u in URLS {
            for b in BRANCHES {
                for s in SUBPATHS {
                    out.push(Vcs::Git { repo_url: u.to_string(), branch: o(b), subpath: o(s) });
                }
            }
            for s in SUBPATHS {
                out.push(Vcs::Bzr { repo_url: u.to_string(), subpath: o(s) });
            }
            out.push(Vcs::Hg { repo_url: u.to_string() });
            out.push(Vcs::Svn { url: u.to_string() });
            for m in [None, Some("mod"), Some("a/b")] {
                out.push(Vcs::Cvs { root: u.to_string(), module: o(m) });
            }
        }
        out
    }
    pub fn n() -> usize {
        all().len()
    }
    /// text form used by this row: "<Kind>|<field value>"
    pub fn value(i: usize) -> (String, String, Result<String, String>) {
        let v = &all()[i];
        let (name, text) = v.to_field();
        let back = Vcs::from_field(name, &text).map(|b| format!("{:?}", b));
        (format!("{:?}", v), format!("{}|{}", name, text), back)
    }
    pub fn reprint(s: &str) -> Result<String, String> {
        let (name, text) = s.split_once('|').ok_or_else(|| "row text must be Kind|value".to_string())?;
        let v = Vcs::from_field(name, text)?;
        let (n2, t2) = v.to_field();
        Ok(format!("{}|{}", n2, t2))
    }
    pub const CANONICAL: &[&str] = &[
        "Git|https://example.com/r.git",
        "Git|https://example.com/r.git -b main",
        "Git|https://example.com/r.git [sub]",
        "Git|https://example.com/r.git -b debian/sid [a/b]",
        "Bzr|https://example.com/b",
        "Bzr|https://example.com/b [sub]",
        "Hg|https://example.com/h",
        "Svn|https://example.com/s/trunk",
        "Cvs|:pserver:anonymous@example.com:/cvs",
        "Cvs|:pserver:anonymous@example.com:/cvs mod",
    ];

    /// keyword row for the VCS kind name accepted by from_field
    pub fn kind_n() -> usize {
        KINDS.len()
    }
    pub const KINDS: &[&str] = &["Git", "Bzr", "Hg", "Svn", "Cvs"];
    pub fn kind_value(i: usize) -> (String, String, Result<String, String>) {
        let k = KINDS[i];
        let back = Vcs::from_field(k, "https://example.com/x").map(|v| v.to_field().0.to_string());
        (k.to_string(), k.to_string(), back)
    }
    pub fn kind_reprint(s: &str) -> Result<String, String> {
        Vcs::from_field(s, "https://example.com/x").map(|v| v.to_field().0.to_string())
    }
}

// ---------------------------------------------------------------------------------------------
// dep3 Origin with its optional category prefix (format_origin / parse_origin are crate-private:
// reached through lossless::PatchHeader::{set_origin, origin} and through the lossy PatchHeader)
// ---------------------------------------------------------------------------------------------
mod origin_row {
    use super::*;
    use dep3::{Origin, OriginCategory};

    pub fn all() -> Vec<(Option<OriginCategory>, Origin)> {
        let cats = [None, Some(OriginCategory::Backport), Some(OriginCategory::Vendor), Some(OriginCategory::Upstream), Some(OriginCategory::Other)];
        let mut out = vec![];
        for c in cats {
            for t in TOKENS.iter().chain(["https://example.com/p.patch", "Fedora, https://example.com/p", "a, b, c", "Vendor", "Upstream, x", "Commit:ABC"].iter()) {
                if !t.contains(' ') {
                    out.push((c, Origin::Commit(t.to_string())));
                }
                out.push((c, Origin::Other(t.to_string())));
            }
            // what the crate's own parser returns for the bare keyword form ("Origin: vendor")
            if c.is_some() {
                out.push((c, Origin::Other(String::new())));
            }
        }
        out
    }
    pub fn n() -> usize {
        all().len()
    }

    // lossless: text form is the printed header "Origin: <value>\n"
    pub fn value_lossless(i: usize) -> (String, String, Result<String, String>) {
        let (c, o) = all()[i].clone();
        let mut h = dep3::lossless::PatchHeader::new();
        h.set_origin(c, o.clone());
        let text = h.to_string();
        let back = dep3::lossless::PatchHeader::from_str(&text).map(|h2| format!("{:?}", h2.origin())).map_err(|e| format!("{:?}", e));
        (format!("{:?}", Some((c, o))), text, back)
    }
    pub fn reprint_lossless(s: &str) -> Result<String, String> {
        let h = dep3::lossless::PatchHeader::from_str(&format!("Origin: {}\n", s)).map_err(|e| format!("{:?}", e))?;
        let (c, o) = h.origin().ok_or_else(|| "no origin".to_string())?;
        let mut h2 = dep3::lossless::PatchHeader::new();
        h2.set_origin(c, o);
        let t = h2.to_string();
        let t = t.strip_prefix("Origin: ").ok_or_else(|| format!("printed header {:?} lacks the field", t))?;
        Ok(t.strip_suffix('\n').unwrap_or(t).to_string())
    }

    fn lossy_header(v: Option<(Option<OriginCategory>, Origin)>) -> dep3::lossy::PatchHeader {
        dep3::lossy::PatchHeader {
            origin: v,
            forwarded: None,
            author: None,
            reviewed_by: None,
            bug_debian: None,
            last_update: None,
            applied_upstream: None,
            bug: None,
            description: None,
        }
    }
    pub fn value_lossy(i: usize) -> (String, String, Result<String, String>) {
        let (c, o) = all()[i].clone();
        let h = lossy_header(Some((c, o.clone())));
        let text = h.to_string();
        let back = dep3::lossy::PatchHeader::from_str(&text).map(|h2| format!("{:?}", h2.origin));
        (format!("{:?}", Some((c, o))), text, back)
    }
    pub fn reprint_lossy(s: &str) -> Result<String, String> {
        let h = dep3::lossy::PatchHeader::from_str(&format!("Origin: {}\n", s))?;
        let t = lossy_header(h.origin).to_string();
        let t = t.strip_prefix("Origin: ").ok_or_else(|| format!("printed header {:?} lacks the field", t))?;
        Ok(t.strip_suffix('\n').unwrap_or(t).to_string())
    }
    pub const CANONICAL: &[&str] = &[
        "https://example.com/p.patch",
        "commit:abc123",
        "vendor, https://example.com/p.patch",
        "upstream, commit:abc123",
        "backport, commit:abc123",
        "other, https://example.com/p.patch",
    ];
}

/// A keyword embedded in a composite value: the candidate string takes the keyword's place in an otherwise valid
/// record / paragraph, and the composite's own reader must reject it unless it is a keyword of the family (a record reader
/// that maps an unknown keyword to a default passes every test made on the bare keyword type).
macro_rules! embed_row {
    ($name:literal, keywords = [$($kw:literal),+], case_insensitive = $ci:literal, filter = $filter:expr, $read:expr) => {{
        fn n() -> usize { [$($kw),+].len() }
        fn reprint(s: &str) -> Result<String, String> {
            let f: fn(&str) -> Result<String, String> = $read;
            f(s)
        }
        fn value(i: usize) -> (String, String, Result<String, String>) {
            let k = [$($kw),+][i];
            (k.to_string(), k.to_string(), reprint(k))
        }
        TypeRow { ty: $name, n_values: n, value, canonical: &[$($kw),+], reprint, keywords: &[$($kw),+], case_insensitive: $ci, filter: Some($filter) }
    }};
}

/// one whitespace-free, non-empty token (the slot of a whitespace-separated record or of a one-line field)
fn one_token(s: &str) -> bool {
    !s.is_empty() && !s.chars().any(|c| c.is_whitespace())
}
fn operator_chars(s: &str) -> bool {
    !s.is_empty() && s.chars().all(|c| "<=>".contains(c))
}

/// The value of `field` after the paragraph (every mandatory field of the struct with its first valid value, `field: s`
/// at its declared position) has gone through the derived reader of `spec` - on either paragraph back-end.
fn through_spec(spec: &str, field: &str, s: &str) -> Result<String, String> {
    let specs = crate::props::c16::all_specs();
    let sp = specs.iter().find(|x| x.id == spec).ok_or_else(|| format!("no table for {}", spec))?;
    let fs: Vec<(&str, &str)> = sp.fields.iter().filter(|f| f.mandatory || f.name == field).map(|f| (f.name, if f.name == field { s } else { f.valid[0] })).collect();
    let text = crate::typed::render_para(&fs);
    let pick = |items: crate::typed::Items| items.into_iter().find(|(k, _)| k == field).map(|(_, v)| v).ok_or_else(|| format!("accepted, but {} is gone from {:?}", field, text));
    match ((sp.roundtrip)(&text, false), (sp.roundtrip)(&text, true)) {
        (Ok(a), _) => pick(a),
        (_, Ok(b)) => pick(b),
        (Err(e), Err(_)) => Err(e),
    }
}

pub fn rows() -> Vec<TypeRow> {
    use debian_control::fields::*;
    let mut v = vec![];

    // ---- keywords inside composite values ----
    v.push(embed_row!("changes::File priority token", keywords = ["required", "important", "standard", "optional", "extra"], case_insensitive = false, filter = one_token,
        |s| debian_control::changes::File::from_str(&format!("abc 1 net {} f_1.dsc", s)).map(|f| f.priority.to_string()).map_err(|e| format!("{:?}", e))));
    v.push(embed_row!("fields::PackageListEntry priority token", keywords = ["required", "important", "standard", "optional", "extra"], case_insensitive = false, filter = one_token,
        |s| PackageListEntry::from_str(&format!("foo deb net {}", s)).map(|f| f.priority.to_string()).map_err(|e| format!("{:?}", e))));
    v.push(embed_row!("fields::PackageListEntry priority token before an extra key", keywords = ["required", "important", "standard", "optional", "extra"], case_insensitive = false, filter = one_token,
        |s| PackageListEntry::from_str(&format!("foo deb net {} arch=any", s)).map(|f| f.priority.to_string()).map_err(|e| format!("{:?}", e))));
    v.push(embed_row!("lossy::control::Source Priority field", keywords = ["required", "important", "standard", "optional", "extra"], case_insensitive = false, filter = one_token,
        |s| through_spec("lossy::control::Source", "Priority", s)));
    v.push(embed_row!("lossy::control::Binary Priority field", keywords = ["required", "important", "standard", "optional", "extra"], case_insensitive = false, filter = one_token,
        |s| through_spec("lossy::control::Binary", "Priority", s)));
    v.push(embed_row!("lossy::control::Binary Multi-Arch field", keywords = ["same", "foreign", "no", "allowed"], case_insensitive = false, filter = one_token,
        |s| through_spec("lossy::control::Binary", "Multi-Arch", s)));
    v.push(embed_row!("lossy::apt::Source Priority field", keywords = ["required", "important", "standard", "optional", "extra"], case_insensitive = false, filter = one_token,
        |s| through_spec("lossy::apt::Source", "Priority", s)));
    v.push(embed_row!("lossy::apt::Package Priority field", keywords = ["required", "important", "standard", "optional", "extra"], case_insensitive = false, filter = one_token,
        |s| through_spec("lossy::apt::Package", "Priority", s)));
    v.push(embed_row!("apt_sources::Repository Types field", keywords = ["deb", "deb-src"], case_insensitive = false, filter = one_token,
        |s| through_spec("apt_sources::Repository", "Types", s)));
    v.push(embed_row!("apt_sources::Repository By-Hash field", keywords = ["yes", "no", "force"], case_insensitive = false, filter = one_token,
        |s| through_spec("apt_sources::Repository", "By-Hash", s)));
    v.push(embed_row!("changes::Changes Urgency field", keywords = ["low", "medium", "high", "emergency", "critical"], case_insensitive = true, filter = one_token,
        |s| debian_control::changes::Changes::read(format!("Format: 1.8\nUrgency: {}\n", s).as_bytes()).map_err(|e| e.to_string())?.urgency().map(|u| u.to_string()).ok_or_else(|| "no urgency".to_string())));
    v.push(embed_row!("lossy::relations::Relation operator", keywords = ["<<", "<=", "=", ">=", ">>"], case_insensitive = false, filter = operator_chars,
        |s| debian_control::lossy::Relation::from_str(&format!("a ({} 1)", s)).map(|r| r.version.map(|(c, _)| c.to_string()).unwrap_or_default())));
    v.push(embed_row!("lossless::relations::Relation operator", keywords = ["<<", "<=", "=", ">=", ">>"], case_insensitive = false, filter = operator_chars,
        |s| debian_control::lossless::relations::Relation::from_str(&format!("a ({} 1)", s)).map(|r| r.version().map(|(c, _)| c.to_string()).unwrap_or_default())));

    // ---- debian-control/src/fields.rs ----
    v.push(enum_row!(Priority, "fields::Priority",
        [Priority::Required, Priority::Important, Priority::Standard, Priority::Optional, Priority::Extra],
        keywords = ["required", "important", "standard", "optional", "extra"], case_insensitive = false));
    v.push(enum_row!(MultiArch, "fields::MultiArch",
        [MultiArch::Same, MultiArch::Foreign, MultiArch::No, MultiArch::Allowed],
        keywords = ["same", "foreign", "no", "allowed"], case_insensitive = false));
    v.push(enum_row!(Urgency, "fields::Urgency",
        [Urgency::Low, Urgency::Medium, Urgency::High, Urgency::Emergency, Urgency::Critical],
        keywords = ["low", "medium", "high", "emergency", "critical"], case_insensitive = true));
    v.push(record_row!(Sha1Checksum, "fields::Sha1Checksum",
        values = {
            let mut out = vec![];
            for h in TOKENS { for s in SIZES { for f in TOKENS {
                out.push(Sha1Checksum { sha1: h.to_string(), size: s, filename: f.to_string() });
            }}}
            out
        },
        canonical = ["da39a3ee 0 empty", "abc 18446744073709551615 x.y_1"]));
    v.push(checksum_row!(Sha256Checksum, "fields::Sha256Checksum", sha256));
    v.push(checksum_row!(Sha512Checksum, "fields::Sha512Checksum", sha512));
    v.push(checksum_row!(Md5Checksum, "fields::Md5Checksum", md5sum));
    v.push(record_row!(PackageListEntry, "fields::PackageListEntry",
        values = {
            // 0 or exactly 1 extra key (two extras print in hash order)
            let extras: [Option<(&str, &str)>; 4] = [None, Some(("arch", "any")), Some(("é", "x.y_1")), Some(("k", ""))];
            let mut out = vec![];
            for p in TOKENS { for t in TOKENS { for s in TOKENS { for pr in priorities() { for e in extras {
                let mut ent = PackageListEntry::new(p, t, s, pr.clone());
                if let Some((k, val)) = e {
                    ent.extra.insert(k.to_string(), val.to_string());
                }
                out.push(ent);
            }}}}}
            // an extra whose value itself contains '=' (kept out of the product: one value, not 320 copies of it)
            let mut ent = PackageListEntry::new("a", "deb", "net", Priority::Optional);
            ent.extra.insert("k".to_string(), "a=b".to_string());
            out.push(ent);
            out
        },
        canonical = ["foo deb net optional", "foo deb net optional arch=any", "libé udeb x.y_1 extra profile=!stage1"]));

    // ---- debian-control/src/lossless/changes.rs ----
    v.push(record_row!(debian_control::changes::File, "changes::File",
        values = {
            let mut out = vec![];
            for m in TOKENS { for sz in SIZES { for s in TOKENS { for pr in priorities() { for f in TOKENS {
                out.push(debian_control::changes::File { md5sum: m.to_string(), size: sz, section: s.to_string(), priority: pr.clone(), filename: f.to_string() });
            }}}}}
            out
        },
        canonical = ["d41d8cd9 0 net optional foo_1.0.dsc", "abc 18446744073709551615 x.y_1 required é"]));

    // ---- debian-control/src/lib.rs: parse_identity ("Name <email>" or a bare address; nothing prints one, so the
    // canonical-text clause does not apply) ----
    {
        const ID_NAMES: [&str; 5] = ["", "A", "Jelmer Vernoo\u{133}", "Doe, John", "a b  c"];
        const ID_MAILS: [&str; 3] = ["a@b", "a.b+c@d-e.org", "\u{e9}@x"];
        fn n() -> usize {
            ID_NAMES.len() * ID_MAILS.len()
        }
        fn value(i: usize) -> (String, String, Result<String, String>) {
            let (name, mail) = (ID_NAMES[i / ID_MAILS.len()], ID_MAILS[i % ID_MAILS.len()]);
            let text = if name.is_empty() { mail.to_string() } else { format!("{} <{}>", name, mail) };
            let back = debian_control::parse_identity(&text).map(|b| format!("{:?}", b)).map_err(|e| format!("{:?}", e));
            (format!("{:?}", (name, mail)), text, back)
        }
        fn reprint(s: &str) -> Result<String, String> {
            debian_control::parse_identity(s).map(|(n, m)| if n.is_empty() { m.to_string() } else { format!("{} <{}>", n, m) }).map_err(|e| format!("{:?}", e))
        }
        v.push(TypeRow { ty: "parse_identity (name, email)", n_values: n, value, canonical: &["A B <a@b>", "a@b"], reprint, keywords: &[], case_insensitive: false, filter: None });
    }

    // ---- debian-control/src/relations.rs ----
    {
        use debian_control::relations::{BuildProfile, VersionConstraint};
        v.push(enum_row!(VersionConstraint, "relations::VersionConstraint",
            [VersionConstraint::LessThan, VersionConstraint::LessThanEqual, VersionConstraint::Equal, VersionConstraint::GreaterThanEqual, VersionConstraint::GreaterThan],
            keywords = ["<<", "<=", "=", ">=", ">>"], case_insensitive = false));
        v.push(record_row!(BuildProfile, "relations::BuildProfile",
            values = {
                let mut out = vec![];
                for t in TOKENS.iter().chain(["nocheck", "pkg.foo.bar"].iter()) {
                    out.push(BuildProfile::Enabled(t.to_string()));
                    out.push(BuildProfile::Disabled(t.to_string()));
                }
                out
            },
            canonical = ["nocheck", "!nocheck", "pkg.foo.bar", "!é"]));
    }

    // ---- debian-control/src/vcs.rs ----
    {
        use debian_control::vcs::ParsedVcs;
        v.push(record_row!(ParsedVcs, "vcs::ParsedVcs",
            values = {
                let mut out = vec![];
                for u in URLS { for b in BRANCHES { for s in SUBPATHS {
                    out.push(ParsedVcs { repo_url: u.to_string(), branch: b.map(|x| x.to_string()), subpath: s.map(|x| x.to_string()) });
                }}}
                out
            },
            canonical = ["https://example.com/r.git", "https://example.com/r.git -b main", "https://example.com/r.git [sub]", "https://example.com/r.git -b debian/sid [a/b]"]));
        v.push(TypeRow { ty: "vcs::Vcs", n_values: vcs_row::n, value: vcs_row::value, canonical: vcs_row::CANONICAL, reprint: vcs_row::reprint, keywords: &[], case_insensitive: false, filter: None });
        v.push(TypeRow { ty: "vcs::Vcs kind name", n_values: vcs_row::kind_n, value: vcs_row::kind_value, canonical: vcs_row::KINDS, reprint: vcs_row::kind_reprint, keywords: vcs_row::KINDS, case_insensitive: false, filter: None });
    }

    // ---- dep3/src/fields.rs ----
    {
        use dep3::{AppliedUpstream, Forwarded, Origin, OriginCategory};
        // Forwarded: "no" / "not-needed" are the keywords, every other text is a reference (Yes) - nothing to reject
        v.push(record_row!(Forwarded, "dep3::Forwarded",
            values = {
                let mut out = vec![Forwarded::No, Forwarded::NotNeeded];
                for t in TOKENS.iter().chain(["yes", "https://example.com/bug/1"].iter()).chain(CASE_TEXTS.iter()).chain(CROSS_TEXTS.iter()).chain(["commit:abc"].iter()) {
                    out.push(Forwarded::Yes(t.to_string()));
                }
                out
            },
            canonical = ["no", "not-needed", "yes", "https://example.com/bug/1", "No", "NOT-NEEDED", "https://Example.COM/Ticket/Display.html?Id=42"]));
        v.push(enum_row!(OriginCategory, "dep3::OriginCategory",
            [OriginCategory::Backport, OriginCategory::Vendor, OriginCategory::Upstream, OriginCategory::Other],
            keywords = ["backport", "vendor", "upstream", "other"], case_insensitive = false));
        v.push(record_row!(Origin, "dep3::Origin",
            values = {
                let mut out = vec![];
                for t in TOKENS.iter().chain(["https://example.com/p.patch"].iter()) {
                    out.push(Origin::Commit(t.to_string()));
                    out.push(Origin::Other(t.to_string()));
                }
                for t in CASE_TEXTS.iter().chain(["no", "not-needed", "upstream", "vendor"].iter()) {
                    out.push(Origin::Other(t.to_string()));
                }
                out
            },
            canonical = ["commit:abc123", "https://example.com/p.patch", "é"]));
        v.push(record_row!(AppliedUpstream, "dep3::AppliedUpstream",
            values = {
                let mut out = vec![];
                for t in TOKENS.iter().chain(["https://example.com/c/1", "1.2.3"].iter()) {
                    out.push(AppliedUpstream::Commit(t.to_string()));
                    out.push(AppliedUpstream::Other(t.to_string()));
                }
                for t in CASE_TEXTS.iter().chain(CROSS_TEXTS.iter()).chain(["no", "not-needed"].iter()) {
                    out.push(AppliedUpstream::Other(t.to_string()));
                }
                out
            },
            canonical = ["commit:abc123", "https://example.com/c/1", "1.2.3", "upstream", "vendor, commit:abc", "upstream, 2.0"]));
        v.push(TypeRow { ty: "dep3::lossless::PatchHeader origin (category, Origin)", n_values: origin_row::n, value: origin_row::value_lossless, canonical: origin_row::CANONICAL, reprint: origin_row::reprint_lossless, keywords: &[], case_insensitive: false, filter: None });
        v.push(TypeRow { ty: "dep3::lossy::PatchHeader origin (category, Origin)", n_values: origin_row::n, value: origin_row::value_lossy, canonical: origin_row::CANONICAL, reprint: origin_row::reprint_lossy, keywords: &[], case_insensitive: false, filter: None });
    }

    // ---- debian-copyright/src/lib.rs ----
    {
        use debian_copyright::License;
        v.push(record_row!(License, "debian_copyright::License",
            values = {
                let names = ["GPL-3+", "a", "é", "MIT or Apache-2.0"];
                let texts = ["", "a", "line one", " indented\n .\n more", "two\nlines", "é\n"];
                let mut out = vec![];
                for n in names { out.push(License::Name(n.to_string())); }
                for t in texts { out.push(License::Text(t.to_string())); }
                for n in names { for t in texts { out.push(License::Named(n.to_string(), t.to_string())); } }
                out
            },
            canonical = ["GPL-3+", "GPL-3+\n text", "\n text\n more", "MIT or Apache-2.0\n a\n .\n b"]));
    }

    // ---- apt-sources ----
    {
        use apt_sources::signature::Signature;
        use apt_sources::{RepositoryType, YesNoForce};
        v.push(enum_row!(RepositoryType, "apt_sources::RepositoryType",
            [RepositoryType::Binary, RepositoryType::Source],
            keywords = ["deb", "deb-src"], case_insensitive = false));
        v.push(enum_row!(YesNoForce, "apt_sources::YesNoForce",
            [YesNoForce::Yes, YesNoForce::No, YesNoForce::Force],
            keywords = ["yes", "no", "force"], case_insensitive = false));
        v.push(record_row!(Signature, "apt_sources::Signature",
            values = {
                let mut out = vec![];
                for p in TOKENS.iter().chain(["/usr/share/keyrings/x.gpg", "/etc/apt/trusted.gpg.d/é.asc"].iter()) {
                    out.push(Signature::KeyPath(std::path::PathBuf::from(p)));
                }
                for b in ["-----BEGIN PGP PUBLIC KEY BLOCK-----\n.\nmQINBF\n=abcd\n-----END PGP PUBLIC KEY BLOCK-----", "a\nb", "mDMEY865", "a b", ""] {
                    out.push(Signature::KeyBlock(b.to_string()));
                }
                out
            },
            canonical = ["/usr/share/keyrings/x.gpg", "a", "\n-----BEGIN PGP PUBLIC KEY BLOCK-----\n.\nmQINBF\n=abcd\n-----END PGP PUBLIC KEY BLOCK-----"]));
    }
    v
}
