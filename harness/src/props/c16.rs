//! C16 — derived struct/paragraph conversions round-trip and update only own fields (DESIGN 3/C16).
//! Programs: 16 single-field structs (one per field shape the macro distinguishes), one struct with all
//! 16 shapes, and every deriving struct shipped in the workspace (tables in typed_tables.rs).

use crate::core::*;
use crate::kdev::*;
use crate::para_spec;
use crate::typed::Norm::*;
use crate::typed::*;
use deb822_lossless::{FromDeb822, ToDeb822};
use serde::{Deserialize, Serialize};
use serde_json::{json, Value};

// ---- custom codecs for the test structs ---------------------------------------------------------------
fn ser_plus(v: &i32) -> String {
    format!("{:+}", v)
}
fn de_hex(s: &str) -> Result<i32, String> {
    match s.strip_prefix("0x") {
        Some(h) => i32::from_str_radix(h, 16).map_err(|e| e.to_string()),
        None => s.parse::<i32>().map_err(|e| e.to_string()),
    }
}
fn ser_list(v: &Vec<String>) -> String {
    v.join(" ")
}
fn de_list(s: &str) -> Result<Vec<String>, String> {
    if s.contains('!') {
        return Err("list items must not contain '!'".to_string());
    }
    Ok(s.split_whitespace().map(|x| x.to_string()).collect())
}
fn ser_yesno(v: &bool) -> String {
    if *v { "yes".into() } else { "no".into() }
}
fn de_yesno(s: &str) -> Result<bool, String> {
    match s {
        "yes" => Ok(true),
        "no" => Ok(false),
        _ => Err(format!("not yes/no: {}", s)),
    }
}

macro_rules! f {
    ($name:literal, $mand:literal, [$($v:literal),+], $norm:expr, $inv:expr) => {
        FieldSpec { name: $name, mandatory: $mand, valid: &[$($v),+], norm: $norm, invalid: $inv }
    };
}

/// All 16 shapes in one struct (mandatory/optional x default/renamed key x default/custom serialiser x default/custom deserialiser).
#[derive(FromDeb822, ToDeb822, PartialEq, Debug)]
pub struct Shapes16 {
    m_plain: String,
    #[deb822(field = "M-Renamed")]
    m_renamed: i32,
    #[deb822(serialize_with = ser_plus)]
    m_ser: i32,
    #[deb822(field = "M-Renamed-Ser", serialize_with = ser_plus)]
    m_renamed_ser: i32,
    #[deb822(deserialize_with = de_hex)]
    m_de: i32,
    #[deb822(field = "M-Renamed-De", deserialize_with = de_hex)]
    m_renamed_de: i32,
    #[deb822(serialize_with = ser_list, deserialize_with = de_list)]
    m_both: Vec<String>,
    #[deb822(field = "M-Renamed-Both", serialize_with = ser_yesno, deserialize_with = de_yesno)]
    m_renamed_both: bool,
    o_plain: Option<debian_control::fields::Priority>,
    #[deb822(field = "O-Renamed")]
    o_renamed: Option<String>,
    #[deb822(serialize_with = ser_plus)]
    o_ser: Option<i32>,
    #[deb822(field = "O-Renamed-Ser", serialize_with = ser_plus)]
    o_renamed_ser: Option<i32>,
    #[deb822(deserialize_with = de_hex)]
    o_de: Option<i32>,
    #[deb822(field = "O-Renamed-De", deserialize_with = de_hex)]
    o_renamed_de: Option<i32>,
    #[deb822(serialize_with = ser_list, deserialize_with = de_list)]
    o_both: Option<Vec<String>>,
    #[deb822(field = "O-Renamed-Both", serialize_with = ser_yesno, deserialize_with = de_yesno)]
    o_renamed_both: Option<bool>,
}

const SHAPES16: &[FieldSpec] = &[
    f!("m_plain", true, ["x", "y z", ""], Exact, None),
    f!("M-Renamed", true, ["1", "-42"], Normal, Some("1x")),
    f!("m_ser", true, ["+1", "-42"], Normal, Some("1x")),
    f!("M-Renamed-Ser", true, ["+7", "+0"], Normal, Some("--1")),
    f!("m_de", true, ["10", "-3"], Normal, Some("0xZZ")),
    f!("M-Renamed-De", true, ["255", "0"], Normal, Some("ten")),
    f!("m_both", true, ["a", "a b c", ""], Words, Some("a !b")),
    f!("M-Renamed-Both", true, ["yes", "no"], Exact, Some("maybe")),
    f!("o_plain", false, ["optional", "extra"], Exact, Some("superfluous")),
    f!("O-Renamed", false, ["x", "y z", ""], Exact, None),
    f!("o_ser", false, ["+1", "-42"], Normal, Some("1x")),
    f!("O-Renamed-Ser", false, ["+7", "+0"], Normal, Some("--1")),
    f!("o_de", false, ["10", "-3"], Normal, Some("0xZZ")),
    f!("O-Renamed-De", false, ["255", "0"], Normal, Some("ten")),
    f!("o_both", false, ["a", "a b c"], Words, Some("a !b")),
    f!("O-Renamed-Both", false, ["yes", "no"], Exact, Some("maybe")),
];

macro_rules! single {
    // the field is passed as raw tokens: a `ty` fragment would reach the derive macro wrapped in an invisible
    // group, which its Option detection does not look through
    ($st:ident, $tbl:ident, $id:literal, { $($field:tt)* }, $spec:expr) => {
        #[derive(FromDeb822, ToDeb822, PartialEq, Debug)]
        pub struct $st {
            $($field)*
        }
        const $tbl: &[FieldSpec] = &[$spec];
    };
}
single!(S01, T01, "S01", { v: String }, f!("v", true, ["x", "y z", ""], Exact, None));
single!(S02, T02, "S02", { #[deb822(field = "V-Renamed")] v: i32 }, f!("V-Renamed", true, ["1", "-42"], Normal, Some("1x")));
single!(S03, T03, "S03", { #[deb822(serialize_with = ser_plus)] v: i32 }, f!("v", true, ["+1", "-42"], Normal, Some("1x")));
single!(S04, T04, "S04", { #[deb822(field = "V-Renamed", serialize_with = ser_plus)] v: i32 }, f!("V-Renamed", true, ["+7", "+0"], Normal, Some("--1")));
single!(S05, T05, "S05", { #[deb822(deserialize_with = de_hex)] v: i32 }, f!("v", true, ["10", "-3"], Normal, Some("0xZZ")));
single!(S06, T06, "S06", { #[deb822(field = "V-Renamed", deserialize_with = de_hex)] v: i32 }, f!("V-Renamed", true, ["255", "0"], Normal, Some("ten")));
single!(S07, T07, "S07", { #[deb822(serialize_with = ser_list, deserialize_with = de_list)] v: Vec<String> }, f!("v", true, ["a", "a b c", ""], Words, Some("a !b")));
single!(S08, T08, "S08", { #[deb822(field = "V-Renamed", serialize_with = ser_yesno, deserialize_with = de_yesno)] v: bool }, f!("V-Renamed", true, ["yes", "no"], Exact, Some("maybe")));
single!(S09, T09, "S09", { v: Option<debian_control::fields::Priority> }, f!("v", false, ["optional", "extra"], Exact, Some("superfluous")));
single!(S10, T10, "S10", { #[deb822(field = "V-Renamed")] v: Option<String> }, f!("V-Renamed", false, ["x", "y z", ""], Exact, None));
single!(S11, T11, "S11", { #[deb822(serialize_with = ser_plus)] v: Option<i32> }, f!("v", false, ["+1", "-42"], Normal, Some("1x")));
single!(S12, T12, "S12", { #[deb822(field = "V-Renamed", serialize_with = ser_plus)] v: Option<i32> }, f!("V-Renamed", false, ["+7", "+0"], Normal, Some("--1")));
single!(S13, T13, "S13", { #[deb822(deserialize_with = de_hex)] v: Option<i32> }, f!("v", false, ["10", "-3"], Normal, Some("0xZZ")));
single!(S14, T14, "S14", { #[deb822(field = "V-Renamed", deserialize_with = de_hex)] v: Option<i32> }, f!("V-Renamed", false, ["255", "0"], Normal, Some("ten")));
single!(S15, T15, "S15", { #[deb822(serialize_with = ser_list, deserialize_with = de_list)] v: Option<Vec<String>> }, f!("v", false, ["a", "a b c"], Words, Some("a !b")));
single!(S16, T16, "S16", { #[deb822(field = "V-Renamed", serialize_with = ser_yesno, deserialize_with = de_yesno)] v: Option<bool> }, f!("V-Renamed", false, ["yes", "no"], Exact, Some("maybe")));

// the same configuration spelt as several #[deb822(...)] attributes on one field (the macro accepts that), in either
// order and with a doc comment in between
single!(S17, T17, "S17", { #[deb822(field = "V-Renamed")] #[deb822(serialize_with = ser_yesno, deserialize_with = de_yesno)] v: bool }, f!("V-Renamed", true, ["yes", "no"], Exact, Some("maybe")));
single!(S18, T18, "S18", { #[deb822(serialize_with = ser_yesno, deserialize_with = de_yesno)] #[doc = "a doc comment between the two"] #[deb822(field = "V-Renamed")] v: Option<bool> }, f!("V-Renamed", false, ["yes", "no"], Exact, Some("maybe")));
single!(S19, T19, "S19", { #[deb822(deserialize_with = de_hex)] #[deb822(field = "V-Renamed")] #[deb822(serialize_with = ser_plus)] v: i32 }, f!("V-Renamed", true, ["+7", "+0"], Normal, Some("--1")));

// an optional field spelt with a qualified path, and the keys of one attribute in another order with a trailing comma
single!(S20, T20, "S20", { v: std::option::Option<String> }, f!("v", false, ["x", "y z", ""], Exact, None));
single!(S21, T21, "S21", { #[deb822(deserialize_with = de_hex, serialize_with = ser_plus, field = "V-Renamed",)] v: core::option::Option<i32> }, f!("V-Renamed", false, ["+7", "+0"], Normal, Some("--1")));
// i32 limits
single!(S22, T22, "S22", { v: i32 }, f!("v", true, ["2147483647", "-2147483648", "0"], Normal, Some("2147483648")));

pub fn all_specs() -> Vec<ParaSpec> {
    let mut v = vec![
        para_spec!(S01, "test::S01 mandatory/default key/default codecs", T01, eq),
        para_spec!(S02, "test::S02 mandatory/renamed", T02, eq),
        para_spec!(S03, "test::S03 mandatory/custom serialiser", T03, eq),
        para_spec!(S04, "test::S04 mandatory/renamed/custom serialiser", T04, eq),
        para_spec!(S05, "test::S05 mandatory/custom deserialiser", T05, eq),
        para_spec!(S06, "test::S06 mandatory/renamed/custom deserialiser", T06, eq),
        para_spec!(S07, "test::S07 mandatory/both custom", T07, eq),
        para_spec!(S08, "test::S08 mandatory/renamed/both custom", T08, eq),
        para_spec!(S09, "test::S09 optional/default", T09, eq),
        para_spec!(S10, "test::S10 optional/renamed", T10, eq),
        para_spec!(S11, "test::S11 optional/custom serialiser", T11, eq),
        para_spec!(S12, "test::S12 optional/renamed/custom serialiser", T12, eq),
        para_spec!(S13, "test::S13 optional/custom deserialiser", T13, eq),
        para_spec!(S14, "test::S14 optional/renamed/custom deserialiser", T14, eq),
        para_spec!(S15, "test::S15 optional/both custom", T15, eq),
        para_spec!(S16, "test::S16 optional/renamed/both custom", T16, eq),
        para_spec!(S17, "test::S17 key and codecs in two attributes", T17, eq),
        para_spec!(S18, "test::S18 codecs and key in two attributes, doc comment between", T18, eq),
        para_spec!(S19, "test::S19 three attributes", T19, eq),
        para_spec!(S20, "test::S20 std::option::Option", T20, eq),
        para_spec!(S21, "test::S21 core::option::Option, keys reordered", T21, eq),
        para_spec!(S22, "test::S22 i32 limits", T22, eq),
        para_spec!(Shapes16, "test::Shapes16 all sixteen shapes", SHAPES16, eq),
    ];
    v.extend(crate::typed_tables::specs());
    v
}

#[derive(Clone, Serialize, Deserialize, PartialEq, Debug)]
pub enum Scenario {
    RoundTrip,
    /// update_paragraph onto prior contents `kind` (0 empty, 1 own fields with other values, 2 own fields interleaved with
    /// foreign fields (and comments on the lossless back-end), 3 every own optional field present, 4 only the later-declared
    /// half of the present fields after a foreign field, without final newline, 5 every own field twice, 6 a paragraph built by to_paragraph() from another value), back-end
    Update(usize, bool),
    MissingMandatory(usize),
    Invalid(usize),
    /// the value never exists as text: free-text field `.0` carries in-memory variant `.1` of its value (0 blanks in
    /// front, 1 blanks behind, 2 starts with a line break and has two lines, 3 the plain value, 4 every other letter in upper case, 5 two-, three- and four-byte characters appended); source paragraph
    /// collected from pairs on either back-end, converted on either back-end
    Mem(usize, usize),
}
pub const N_MEM: usize = 6;

#[derive(Clone, Serialize, Deserialize, PartialEq, Debug)]
pub struct C16Case {
    pub spec: String,
    /// per field: 0 = absent, i+1 = valid value i
    pub v: Vec<usize>,
    pub scenario: Scenario,
}

pub struct C16;

fn present<'a>(sp: &'a ParaSpec, v: &[usize]) -> Vec<(&'a FieldSpec, &'a str)> {
    sp.fields.iter().zip(v.iter()).filter(|(_, x)| **x > 0).map(|(f, x)| (f, f.valid[(*x - 1) % f.valid.len()])).collect()
}
fn text_of(fs: &[(&FieldSpec, &str)]) -> String {
    render_para(&fs.iter().map(|(f, v)| (f.name, *v)).collect::<Vec<_>>())
}

fn check_roundtrip(sp: &ParaSpec, v: &[usize]) -> Vec<Viol> {
    let mut out = vec![];
    let fs = present(sp, v);
    let text = text_of(&fs);
    let mut both: Vec<Items> = vec![];
    for lossless in [false, true] {
        let be = if lossless { "lossless" } else { "lossy" };
        let ctx = |w: &str| format!("{} from {:?} ({} paragraph): {}", sp.id, text, be, w);
        match (sp.roundtrip)(&text, lossless) {
            Ok(items) => {
                let names: Vec<&str> = items.iter().map(|(k, _)| k.as_str()).collect();
                let want: Vec<&str> = fs.iter().map(|(f, _)| f.name).collect();
                if names != want {
                    out.push(viol("fields-in-declaration-order", ctx(&format!("to_paragraph lists {:?}, expected {:?}", names, want))));
                } else {
                    for ((f, raw), (_, got)) in fs.iter().zip(items.iter()) {
                        if normalise(f.norm, raw) != normalise(f.norm, got) {
                            out.push(viol("value-through-codec", ctx(&format!("field {} written {:?}, comes back {:?}", f.name, raw, got))));
                        }
                    }
                }
                // from_paragraph(to_paragraph(x)) == x
                let again = render_para(&items.iter().map(|(k, v)| (k.as_str(), v.as_str())).collect::<Vec<_>>());
                match (sp.equal)(&text, &again) {
                    Ok(true) => {}
                    Ok(false) => out.push(viol("roundtrip-equal", ctx(&format!("value read from the re-serialised paragraph {:?} differs", again)))),
                    Err(e) => out.push(viol("roundtrip-equal", ctx(&format!("re-serialised paragraph {:?} does not read back: {}", again, e)))),
                }
                both.push(items);
            }
            Err(e) => out.push(viol("accepts-valid", ctx(&e))),
        }
    }
    if both.len() == 2 && both[0] != both[1] {
        out.push(viol("backends-agree", format!("{} from {:?}: lossy {:?} lossless {:?}", sp.id, text, both[0], both[1])));
    }
    out
}

fn check_update(sp: &ParaSpec, v: &[usize], kind: usize, lossless: bool) -> Vec<Viol> {
    let mut out = vec![];
    let fs = present(sp, v);
    let value_text = text_of(&fs);
    // prior contents
    let other = |f: &FieldSpec| f.valid[1 % f.valid.len()];
    let mut prior = String::new();
    let mut foreign: Vec<String> = vec![];
    match kind {
        0 => {}
        1 => {
            for (f, _) in &fs {
                prior.push_str(&render_para(&[(f.name, other(f))]));
            }
        }
        2 => {
            prior.push_str("X-Foreign-First: keep 1\n");
            foreign.push("X-Foreign-First: keep 1".into());
            // a foreign field whose name differs from an own key only in letter case (field names are exact)
            if let Some(f0) = sp.fields.first() {
                let alt = if f0.name.to_lowercase() != f0.name { f0.name.to_lowercase() } else { f0.name.to_uppercase() };
                if alt != f0.name && !sp.fields.iter().any(|f| f.name == alt) {
                    prior.push_str(&format!("{}: keep 2\n", alt));
                    foreign.push(format!("{}: keep 2", alt));
                }
            }
            // ... and foreign fields whose names are a proper prefix and an extension of an own key
            if let Some(f0) = sp.fields.first() {
                for alt in [format!("{}2", f0.name), f0.name[..f0.name.len() - 1].to_string()] {
                    if !alt.is_empty() && !sp.fields.iter().any(|f| f.name == alt) {
                        prior.push_str(&format!("{}: keep 3\n", alt));
                        foreign.push(format!("{}: keep 3", alt));
                    }
                }
            }
            for (i, (f, _)) in fs.iter().enumerate() {
                if lossless && i == 0 {
                    prior.push_str("# a comment\n");
                    foreign.push("# a comment".into());
                }
                prior.push_str(&render_para(&[(f.name, other(f))]));
                prior.push_str(&format!("X-Foreign-{}: keep\n  odd   spacing\n", i));
                foreign.push(format!("X-Foreign-{}: keep", i));
                if lossless {
                    foreign.push("  odd   spacing".into());
                }
            }
        }
        3 => {
            for f in sp.fields.iter() {
                prior.push_str(&render_para(&[(f.name, other(f))]));
            }
        }
        6 => {
            // the target is the paragraph to_paragraph() builds from the value with every field present (other values)
            let all: Vec<(&str, &str)> = sp.fields.iter().map(|f| (f.name, other(f))).collect();
            prior = format!("@built:{}", render_para(&all));
        }
        5 => {
            // every own field TWICE (a paragraph may repeat a field name), around a foreign field: a field whose value is
            // absent must be gone afterwards - every occurrence of it
            for f in sp.fields.iter() {
                prior.push_str(&render_para(&[(f.name, other(f))]));
            }
            prior.push_str("X-Foreign-First: keep 1\n");
            foreign.push("X-Foreign-First: keep 1".into());
            for f in sp.fields.iter() {
                prior.push_str(&render_para(&[(f.name, f.valid[0])]));
            }
        }
        _ => {
            // only the later-declared half of the present fields (other values), after a foreign field and a comment,
            // and NO final newline: the earlier-declared fields get appended, then the existing ones are rewritten
            prior.push_str("X-Foreign-First: keep 1\n");
            foreign.push("X-Foreign-First: keep 1".into());
            if lossless {
                prior.push_str("# a comment\n");
                foreign.push("# a comment".into());
            }
            let half = fs.len() / 2;
            for (f, _) in &fs[half..] {
                prior.push_str(&render_para(&[(f.name, other(f))]));
            }
            if prior.ends_with('\n') {
                prior.pop();
            }
        }
    }
    let be = if lossless { "lossless" } else { "lossy" };
    let ctx = |w: &str| format!("{}: value {:?} update_paragraph onto {:?} ({}): {}", sp.id, value_text, prior, be, w);
    let printed = match (sp.update)(&value_text, &prior, lossless) {
        Ok(p) => p,
        Err(e) => return vec![viol("update-applies", ctx(&e))],
    };
    let ctx = |w: &str| format!("{}: value {:?} update_paragraph onto {:?} ({}) -> {:?}: {}", sp.id, value_text, prior, be, printed, w);
    // reads back as the value
    match (sp.equal)(&value_text, &printed) {
        Ok(true) => {}
        Ok(false) => out.push(viol("update-reads-back", ctx("the updated paragraph reads back as a different value"))),
        Err(e) => out.push(viol("update-reads-back", ctx(&format!("the updated paragraph does not read back: {}", e)))),
    }
    // absent optional fields are removed, own fields occur once
    let printed_items: Items = match lossy_para(&printed) {
        Ok(p) => p.all_items(),
        Err(_) if printed.is_empty() => vec![],
        Err(e) => {
            out.push(viol("update-reads-back", ctx(&e)));
            return out;
        }
    };
    for (f, x) in sp.fields.iter().zip(v.iter()) {
        let n = printed_items.iter().filter(|(k, _)| k == f.name).count();
        let want = if *x > 0 { 1 } else { 0 };
        // on a prior that repeats field names the statement only demands that absent fields are gone
        if n != want && !(kind == 5 && want == 1 && n >= 1) {
            out.push(viol("update-sets-and-removes-own-fields", ctx(&format!("field {} occurs {} times, expected {}", f.name, n, want))));
        }
    }
    // "all of this is identical for lossy and lossless paragraphs": same fields, order and values after the update
    // (priors 0, 1, 3, 5, 6 are the same for both back-ends)
    if lossless && matches!(kind, 0 | 1 | 3 | 5 | 6) {
        match (sp.update)(&value_text, &prior, false) {
            Ok(lossy_printed) => {
                let a = lossy_para(&lossy_printed).map(|p| p.all_items()).unwrap_or_default();
                let norm_items = |it: &Items| -> Vec<(String, Vec<String>)> { it.iter().map(|(k, v)| (k.clone(), v.split('\n').map(|l| l.trim().to_string()).filter(|l| !l.is_empty()).collect())).collect() };
                if norm_items(&a) != norm_items(&printed_items) {
                    out.push(viol("backends-agree", ctx(&format!("the lossy back-end gives {:?}", lossy_printed))));
                }
            }
            Err(e) => out.push(viol("backends-agree", ctx(&format!("the lossy back-end fails: {}", e)))),
        }
    }
    // foreign fields (and comments / their formatting on the lossless back-end) unchanged, in order
    let lines: Vec<&str> = printed.lines().collect();
    let mut pos = 0;
    for want in &foreign {
        match lines[pos..].iter().position(|l| l == want || (!lossless && l.trim() == want.trim())) {
            Some(i) => pos += i + 1,
            None => {
                out.push(viol("update-leaves-foreign-fields", ctx(&format!("line {:?} missing or out of order", want))));
                break;
            }
        }
    }
    out
}

fn check_missing(sp: &ParaSpec, v: &[usize], fi: usize) -> Vec<Viol> {
    let mut w = v.to_vec();
    w[fi] = 0;
    let text = text_of(&present(sp, &w));
    let name = sp.fields[fi].name;
    let mut out = vec![];
    for lossless in [false, true] {
        if text.is_empty() {
            continue; // a paragraph cannot be empty
        }
        match (sp.roundtrip)(&text, lossless) {
            Ok(_) => out.push(viol("missing-mandatory-rejected", format!("{}: {:?} lacks mandatory field {} but is accepted ({})", sp.id, text, name, if lossless { "lossless" } else { "lossy" }))),
            Err(e) => {
                if !e.contains(name) {
                    out.push(viol("error-names-field", format!("{}: {:?} lacks {}; error {:?} does not name it", sp.id, text, name, e)));
                }
            }
        }
    }
    out
}

fn check_invalid(sp: &ParaSpec, v: &[usize], fi: usize) -> Vec<Viol> {
    let Some(bad) = sp.fields[fi].invalid else { return vec![] };
    let mut fs = present(sp, v);
    let name = sp.fields[fi].name;
    let mut found = false;
    for (f, val) in fs.iter_mut() {
        if f.name == name {
            *val = bad;
            found = true;
        }
    }
    if !found {
        return vec![];
    }
    let text = text_of(&fs);
    let mut out = vec![];
    for lossless in [false, true] {
        match (sp.roundtrip)(&text, lossless) {
            Ok(_) => out.push(viol("invalid-value-rejected", format!("{}: {:?} has unparsable {} but is accepted", sp.id, text, name))),
            Err(e) => {
                if !e.contains(name) {
                    out.push(viol("error-names-field", format!("{}: {:?} has unparsable {}; error {:?} does not name it", sp.id, text, name, e)));
                }
            }
        }
    }
    out
}

fn free_text(f: &FieldSpec) -> bool {
    f.norm == Exact && f.invalid.is_none()
}

fn check_mem(sp: &ParaSpec, v: &[usize], fi: usize, variant: usize) -> Vec<Viol> {
    let fs = present(sp, v);
    let name = sp.fields[fi].name;
    let items: Items = fs
        .iter()
        .map(|(f, val)| {
            let val = if f.name == name {
                match variant {
                    0 => format!("  {}", val),
                    1 => format!("{} \t", val),
                    2 => format!("\n{}\nsecond", val),
                    4 => {
                        // every other letter in upper case (a codec that folds case changes the value)
                        let mut up = false;
                        val.chars()
                            .map(|c| {
                                if c.is_ascii_alphabetic() {
                                    up = !up;
                                    if up { c.to_ascii_uppercase() } else { c.to_ascii_lowercase() }
                                } else {
                                    c
                                }
                            })
                            .collect()
                    }
                    5 => format!("{} \u{e9}\u{20ac}\u{1f600}", val),
                    _ => val.to_string(),
                }
            } else {
                val.to_string()
            };
            (f.name.to_string(), val)
        })
        .collect();
    match (sp.mem)(&items) {
        Ok(()) => vec![],
        Err(e) if e.starts_with("@backends") => vec![viol("backends-agree", format!("{}: {}", sp.id, e))],
        Err(e) => vec![viol("roundtrip-equal-in-memory", format!("{}: {}", sp.id, e))],
    }
}

fn bases(sp: &ParaSpec) -> Vec<Vec<usize>> {
    let a: Vec<usize> = sp.fields.iter().map(|f| if f.mandatory { 1 } else { 0 }).collect();
    let b: Vec<usize> = sp.fields.iter().map(|_| 1).collect();
    if a == b {
        vec![a]
    } else {
        vec![a, b]
    }
}

impl Prop for C16 {
    type Case = C16Case;
    fn id(&self) -> &'static str {
        "C16"
    }
    fn level(&self) -> &'static str {
        "exploration"
    }
    fn rule(&self, _t: Tier) -> String {
        "programs: 16 single-field structs (every combination of mandatory/optional x default/renamed key x default/custom serialiser x default/custom deserialiser), 3 that spell the configuration as several #[deb822(...)] attributes on one field, 2 that spell Option with a qualified path / reorder the keys, 1 at the i32 limits, one struct with all 16 shapes, and every deriving struct shipped in the workspace; values: per struct every presence/value vector within k deviations (k = 2, thorough 3; full product for the single-field structs) of the all-mandatory and the all-present baselines; scenarios per vector: round trip on both back-ends; for k <= 1 also update_paragraph onto 7 prior contents x 2 back-ends, deletion of each mandatory field, corruption of each field that has an invalid value, and for each free-text field 5 values (blanks in front / behind, a leading line break - which never exist as text -, the plain value, alternating letter case) collected into a paragraph on either back-end and converted on either back-end; non-trivial = all".into()
    }
    fn bounds(&self, t: Tier) -> Value {
        json!({"structs": all_specs().iter().map(|s| json!({"id": s.id, "fields": s.fields.len()})).collect::<Vec<_>>(), "k": t.pick(2, 3)})
    }
    fn assumptions(&self) -> Vec<String> {
        vec!["the field tables (names in declaration order, valid and invalid raw values, comparison mode) are hand-written from the struct definitions and their custom codecs".into()]
    }
    fn n_shards(&self, _t: Tier) -> usize {
        all_specs().len()
    }
    fn explore(&self, t: Tier, shard: usize, f: &mut dyn FnMut(&C16Case) -> Verdict) {
        let specs = all_specs();
        let sp = &specs[shard];
        let n = sp.fields.len();
        // per field menu relative to a base vector: 0 = as in base, then the other presence/value choices
        let choices = |base: usize, fld: &FieldSpec| -> Vec<usize> {
            let mut all: Vec<usize> = (0..=fld.valid.len()).collect();
            if fld.mandatory {
                all.retain(|x| *x != 0);
            }
            all.retain(|x| *x != base);
            let mut v = vec![base];
            v.extend(all);
            v
        };
        let k = t.pick(2, 3).min(n);
        let mut seen = std::collections::HashSet::new();
        for base in bases(sp) {
            let menus: Vec<usize> = sp.fields.iter().zip(base.iter()).map(|(fld, b)| choices(*b, fld).len()).collect();
            let mut emit = |dv: &[usize], f: &mut dyn FnMut(&C16Case) -> Verdict| {
                let v: Vec<usize> = dv.iter().enumerate().map(|(i, d)| choices(base[i], &sp.fields[i])[*d]).collect();
                if !seen.insert(v.clone()) {
                    return;
                }
                let devs = dv.iter().filter(|d| **d != 0).count();
                f(&C16Case { spec: sp.id.to_string(), v: v.clone(), scenario: Scenario::RoundTrip });
                if devs <= 1 {
                    for kind in 0..7 {
                        for lossless in [false, true] {
                            f(&C16Case { spec: sp.id.to_string(), v: v.clone(), scenario: Scenario::Update(kind, lossless) });
                        }
                    }
                    for (i, fld) in sp.fields.iter().enumerate() {
                        if fld.mandatory {
                            f(&C16Case { spec: sp.id.to_string(), v: v.clone(), scenario: Scenario::MissingMandatory(i) });
                        }
                        if fld.invalid.is_some() && v[i] > 0 {
                            f(&C16Case { spec: sp.id.to_string(), v: v.clone(), scenario: Scenario::Invalid(i) });
                        }
                        if free_text(fld) && v[i] > 0 && !fld.valid[(v[i] - 1) % fld.valid.len()].is_empty() {
                            for m in 0..N_MEM {
                                f(&C16Case { spec: sp.id.to_string(), v: v.clone(), scenario: Scenario::Mem(i, m) });
                            }
                        }
                    }
                }
            };
            kdev_shard(&menus, k, None, &mut |dv| emit(dv, f));
            for first in 0..n {
                kdev_shard(&menus, k, Some(first), &mut |dv| emit(dv, f));
            }
        }
    }
    fn check(&self, c: &C16Case, st: &mut Stats) -> Vec<Viol> {
        st.nontrivial += 1;
        let specs = all_specs();
        let Some(sp) = specs.iter().find(|s| s.id == c.spec) else { return vec![] };
        if c.v.len() != sp.fields.len() {
            return vec![];
        }
        let r = guard(1_000_000, || match &c.scenario {
            Scenario::RoundTrip => check_roundtrip(sp, &c.v),
            Scenario::Update(kind, lossless) => check_update(sp, &c.v, *kind, *lossless),
            Scenario::MissingMandatory(i) => check_missing(sp, &c.v, *i),
            Scenario::Invalid(i) => check_invalid(sp, &c.v, *i),
            Scenario::Mem(i, m) => check_mem(sp, &c.v, *i, *m),
        });
        match r {
            Ok(vs) => {
                if vs.is_empty() {
                    st.outcome(match c.scenario {
                        Scenario::RoundTrip => "roundtrip-ok",
                        Scenario::Update(..) => "update-ok",
                        Scenario::MissingMandatory(_) => "missing-rejected",
                        Scenario::Invalid(_) => "invalid-rejected",
                        Scenario::Mem(..) => "in-memory-roundtrip-ok",
                    });
                }
                vs
            }
            Err(p) => vec![viol("panic", format!("{:?}: {}", c, panic_detail(&p)))],
        }
    }
    fn shrinks(&self, c: &C16Case) -> Vec<C16Case> {
        let specs = all_specs();
        let Some(sp) = specs.iter().find(|s| s.id == c.spec) else { return vec![] };
        let mut out = vec![];
        for i in 0..c.v.len() {
            let simplest = if sp.fields[i].mandatory { 1 } else { 0 };
            if c.v[i] != simplest {
                let mut v = c.v.clone();
                v[i] = simplest;
                out.push(C16Case { v, ..c.clone() });
            }
            if c.v[i] > 1 {
                let mut v = c.v.clone();
                v[i] = 1;
                out.push(C16Case { v, ..c.clone() });
            }
        }
        out
    }
    fn snippet(&self, c: &C16Case, v: &Viol) -> String {
        format!("// C16 replay: {:?}\n// clause {}: {}\n", c, v.clause, v.detail.replace('\n', "\\n"))
    }
    fn required_outcomes(&self) -> Vec<&'static str> {
        vec!["roundtrip-ok", "update-ok", "missing-rejected", "invalid-rejected", "in-memory-roundtrip-ok"]
    }
}
