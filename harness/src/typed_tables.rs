//! Field tables of every struct that derives the paragraph conversions.  Fields are listed in the
//! struct's DECLARATION order; `valid` values are raw texts as they appear in files, in the normal
//! form of the field's `norm`; `invalid` is a raw text the field's type must reject (None for types
//! that accept every string).

use crate::para_spec;
use crate::typed::Norm::*;
use crate::typed::{FieldSpec, ParaSpec};

macro_rules! f {
    ($name:literal, $mand:literal, [$($v:literal),+], $norm:expr, $inv:expr) => {
        FieldSpec { name: $name, mandatory: $mand, valid: &[$($v),+], norm: $norm, invalid: $inv }
    };
}

/// optional relationship field (debian_control::lossy::Relations: FromStr / Display).  The values are in the
/// form Display prints: "name[:archqual] [(op version)] [[archs]] [<profiles>]", ", " between entries, " | "
/// between alternatives.
macro_rules! rel {
    ($name:literal) => {
        f!(
            $name,
            false,
            // the last one: groups of several terms with every mix of negated and plain terms, in both orders
            ["debhelper-compat (= 13)", "libfoo-dev (>= 1.0), bar | baz (<< 2:3.0-1~)", "python3:any, gcc [amd64 !i386] <!nocheck>", "a <!x y> <z !w>, b [!amd64 !i386] <p !q r> <!s !t u>"],
            Relations,
            Some("foo bar")
        )
    };
}
/// optional free-text field (Option<String>)
macro_rules! text {
    ($name:literal, $a:literal, $b:literal) => {
        // (the third value: two-, three- and four-byte characters)
        FieldSpec { name: $name, mandatory: false, valid: &[$a, $b, concat!($a, " \u{e9}\u{20ac}\u{1f600}")], norm: Exact, invalid: None }
    };
}

// ---- debian_control::lossy::Source (lossy/control.rs) ----------------------------------------------------
const CONTROL_SOURCE: &[FieldSpec] = &[
    f!("Source", true, ["foo", "bar-ng"], Exact, None),
    rel!("Build-Depends"),
    rel!("Build-Depends-Indep"),
    rel!("Build-Depends-Arch"),
    rel!("Build-Conflicts"),
    rel!("Build-Conflicts-Indep"),
    rel!("Build-Conflicts-Arch"),
    text!("Standards-Version", "4.6.2", "4.7.0"),
    f!("Homepage", false, ["https://example.com/", "https://example.org/projects/foo", "https://example.com/project/", "https://example.com:8080/a/?q=1#frag"], Normal, Some("not a url")),
    text!("Section", "libs", "non-free/devel"),
    f!("Priority", false, ["optional", "required", "extra"], Normal, Some("superfluous")),
    text!("Maintainer", "Joe Bloggs <joe@example.com>", "Debian QA Group <packages@qa.debian.org>"),
    text!("Uploaders", "Jane Doe <jane@example.com>", "Jane Doe <jane@example.com>, Bob Roe <bob@example.com>"),
    text!("Architecture", "any", "all"),
    // custom yes/no codec on both sides
    f!("Rules-Requires-Root", false, ["no", "yes"], Exact, Some("binary-targets")),
    text!("Testsuite", "autopkgtest", "autopkgtest-pkg-python"),
    // vcs::ParsedVcs: FromStr never fails; Display prints "url[ -b branch][ [subpath]]"
    f!(
        "Vcs-Git",
        false,
        ["https://salsa.debian.org/debian/foo.git", "https://salsa.debian.org/debian/foo.git -b debian/main", "https://salsa.debian.org/debian/foo.git -b main [sub/dir]"],
        Normal,
        None
    ),
    f!("Vcs-Browser", false, ["https://salsa.debian.org/debian/foo", "https://example.com/"], Normal, Some("not a url")),
];

// ---- debian_control::lossy::Binary (lossy/control.rs) ----------------------------------------------------
const CONTROL_BINARY: &[FieldSpec] = &[
    f!("Package", true, ["foo", "libfoo1"], Exact, None),
    rel!("Depends"),
    rel!("Recommends"),
    rel!("Suggests"),
    rel!("Enhances"),
    rel!("Pre-Depends"),
    rel!("Breaks"),
    rel!("Conflicts"),
    rel!("Replaces"),
    rel!("Provides"),
    rel!("Built-Using"),
    text!("Architecture", "any", "linux-any"),
    text!("Section", "libs", "non-free/devel"),
    f!("Priority", false, ["optional", "important", "standard"], Normal, Some("superfluous")),
    f!("Multi-Arch", false, ["same", "foreign", "allowed", "no"], Normal, Some("yes")),
    f!("Essential", false, ["yes", "no"], Exact, Some("true")),
    text!("Description", "a short description", "a short description\nA longer one\n.\nwith a second block"),
];

// ---- debian_control::lossy::apt::Release ------------------------------------------------------------------
const APT_RELEASE: &[FieldSpec] = &[
    f!("Codename", true, ["focal", "bookworm"], Exact, None),
    // split_whitespace / join(" ")
    f!("Components", true, ["main", "main restricted universe"], Words, None),
    f!("Architectures", true, ["amd64", "amd64 arm64 riscv64"], Words, None),
    f!("Description", true, ["Ubuntu 20.04 LTS", "Debian 12.5 Released 10 February 2024"], Exact, None),
    f!("Origin", true, ["Ubuntu", "Debian"], Exact, None),
    f!("Label", true, ["Ubuntu", "Debian-Security"], Exact, None),
    f!("Suite", true, ["focal", "stable"], Exact, None),
    f!("Version", true, ["20.04", "12.5"], Exact, None),
    f!("Date", true, ["Thu, 23 Apr 2020 17:19:19 UTC", "Sat, 10 Feb 2024 11:07:25 UTC"], Exact, None),
    // plain bool: FromStr / Display of bool
    f!("NotAutomatic", true, ["false", "true"], Normal, Some("maybe")),
    f!("ButAutomaticUpgrades", true, ["true", "false"], Normal, Some("maybe")),
    f!("Acquire-By-Hash", true, ["true", "false"], Normal, Some("maybe")),
];

// ---- debian_control::lossy::apt::Source -------------------------------------------------------------------
const APT_SOURCE: &[FieldSpec] = &[
    f!("Directory", true, ["pool/main/f/foo", "pool/non-free/b/bar"], Exact, None),
    text!("Description", "a short description", "a short description\nand a longer one"),
    f!("Version", true, ["1.0-1", "2:1.2.3+dfsg-4~bpo12+1", "1.0"], Normal, Some("1.0_1")),
    f!("Package", true, ["foo", "bar"], Exact, None),
    // split_whitespace / join(" ")
    f!("Binary", false, ["foo", "foo libfoo1 libfoo-dev"], Words, None),
    text!("Maintainer", "Joe Bloggs <joe@example.com>", "Debian QA Group <packages@qa.debian.org>"),
    // Build-Depends is a plain Option<String> here (the other three are Relations)
    text!("Build-Depends", "debhelper-compat (= 13)", "debhelper-compat (= 13), libfoo-dev (>= 1.0)"),
    rel!("Build-Depends-Indep"),
    rel!("Build-Conflicts"),
    rel!("Build-Conflicts-Indep"),
    text!("Standards-Version", "4.6.2", "4.7.0"),
    text!("Homepage", "https://example.com", "https://example.org/projects/foo"),
    f!("Autobuild", false, ["true", "false"], Normal, Some("maybe")),
    text!("Testsuite", "autopkgtest", "autopkgtest-pkg-python"),
    text!("Vcs-Browser", "https://salsa.debian.org/debian/foo", "https://example.com/browse"),
    text!("Vcs-Git", "https://salsa.debian.org/debian/foo.git", "https://example.com/foo.git -b main"),
    text!("Vcs-Bzr", "https://code.example.com/foo/trunk", "lp:foo"),
    text!("Vcs-Hg", "https://hg.example.com/foo", "https://hg.example.com/bar"),
    text!("Vcs-Svn", "svn://svn.example.com/foo/trunk", "https://svn.example.com/bar"),
    text!("Vcs-Darcs", "https://darcs.example.com/foo", "https://darcs.example.com/bar"),
    text!("Vcs-Cvs", ":pserver:anonymous@cvs.example.com:/cvs foo", ":pserver:anonymous@cvs.example.com:/cvs bar"),
    text!("Vcs-Arch", "https://arch.example.com/foo", "https://arch.example.com/bar"),
    text!("Vcs-Mtn", "mtn.example.com org.example.foo", "mtn.example.com org.example.bar"),
    f!("Priority", false, ["optional", "extra"], Normal, Some("superfluous")),
    text!("Section", "libs", "non-free/devel"),
    text!("Format", "3.0 (quilt)", "1.0"),
    // split('\n') / join("\n"); mandatory (Vec<String>)
    f!("Package-List", true, ["foo deb libs optional arch=any", "foo deb libs optional arch=any\nlibfoo1 deb libs optional arch=any\nfoo-doc deb doc optional arch=all"], Lines, None),
];

// ---- debian_control::lossy::apt::Package ------------------------------------------------------------------
const APT_PACKAGE: &[FieldSpec] = &[
    f!("Package", true, ["apt", "libfoo1"], Exact, None),
    f!("Version", true, ["2.1.10", "2:1.2.3+dfsg-4~bpo12+1", "1.0-1"], Normal, Some("1.0_1")),
    f!("Architecture", true, ["amd64", "all"], Exact, None),
    text!("Maintainer", "APT Development Team <apt@lists.debian.org>", "Joe Bloggs <joe@example.com>"),
    f!("Installed-Size", false, ["3524", "1", "4294967296", "18446744073709551615"], Normal, Some("18446744073709551616")),
    rel!("Depends"),
    rel!("Pre-Depends"),
    rel!("Recommends"),
    rel!("Suggests"),
    rel!("Enhances"),
    rel!("Breaks"),
    rel!("Conflicts"),
    rel!("Provides"),
    rel!("Replaces"),
    rel!("Built-Using"),
    text!("Description", "commandline package manager", "commandline package manager\nThis package provides commandline tools\n.\nand more"),
    text!("Homepage", "https://example.com", "https://example.org/projects/foo"),
    f!("Priority", false, ["important", "optional"], Normal, Some("superfluous")),
    text!("Section", "admin", "libs"),
    // plain bool
    f!("Essential", false, ["true", "false"], Normal, Some("maybe")),
    text!("Tag", "admin::package-management", "admin::package-management, role::program"),
    f!("Size", false, ["1234567", "0", "4294967296", "18446744073709551615"], Normal, Some("-1")),
    text!("MD5sum", "d41d8cd98f00b204e9800998ecf8427e", "0cc175b9c0f1b6a831c399e269772661"),
    text!("SHA256", "e3b0c44298fc1c149afbf4c8996fb92427ae41e4649b934ca495991b7852b855", "ca978112ca1bbdcafac231b39a23dc4da786eff8147c4e72b9807785afee48bb"),
    text!("Description-MD5", "9fb97a88cb7383934ef963352b53b4a7", "0cc175b9c0f1b6a831c399e269772661"),
];

// ---- debian_control::lossy::buildinfo::Buildinfo ----------------------------------------------------------
const BUILDINFO: &[FieldSpec] = &[
    f!("Format", true, ["1.0", "0.2"], Exact, None),
    f!("Build-Architecture", true, ["amd64", "arm64"], Exact, None),
    f!("Source", true, ["foo", "bar (1.0-1)"], Exact, None),
    text!("Binary", "foo", "foo libfoo1 libfoo-dev"),
    f!("Architecture", true, ["amd64", "all amd64 source"], Exact, None),
    // custom codec = FromStr / Display of debversion::Version
    f!("Version", true, ["1.0-1", "2:1.2.3+dfsg-4~bpo12+1", "1.0"], Normal, Some("1.0_1")),
    text!("Binary-Only-Changes", "foo (1.0-1+b1) sid; urgency=low", "foo (1.0-1+b1) sid; urgency=low\n* Rebuild\n-- Builder <b@example.com>"),
    text!("Checksums-Sha256", "e3b0c44298fc1c14 0 foo_1.0-1_amd64.deb", "e3b0c44298fc1c14 0 foo_1.0-1_amd64.deb\nca978112ca1bbdca 1 libfoo1_1.0-1_amd64.deb"),
    text!("Checksums-Sha1", "da39a3ee5e6b4b0d 0 foo_1.0-1_amd64.deb", "da39a3ee5e6b4b0d 0 foo_1.0-1_amd64.deb\n86f7e437faa5a7fc 1 libfoo1_1.0-1_amd64.deb"),
    text!("Checksums-Md5", "d41d8cd98f00b204 0 foo_1.0-1_amd64.deb", "d41d8cd98f00b204 0 foo_1.0-1_amd64.deb\n0cc175b9c0f1b6a8 1 libfoo1_1.0-1_amd64.deb"),
    text!("Build-Origin", "Debian", "Ubuntu"),
    text!("Build-Date", "Thu, 01 Jan 2015 00:00:00 +0000", "Fri, 02 Jan 2015 10:00:00 +0000"),
    text!("Build-Tainted-By", "merged-usr-via-aliased-dirs", "merged-usr-via-aliased-dirs usr-local-has-programs"),
    // PathBuf::from / Path::display: never fails
    f!("Build-Path", false, ["/build/foo-1.0", "/build/reproducible-path/bar-2.0"], Normal, None),
    // one NAME=value per line into a HashMap (printed sorted by name since fix 9be0fd6); a line without '=' is rejected
    f!("Environment", false, ["LANG=C.UTF-8", "DEB_BUILD_OPTIONS=parallel=4", "DEB_BUILD_OPTIONS=parallel=4\nLANG=C.UTF-8\nTZ=UTC"], Lines, Some("NOEQUALS")),
    rel!("Installed-Build-Depends"),
];

// ---- debian_copyright::lossy::Header ----------------------------------------------------------------------
const COPYRIGHT_HEADER: &[FieldSpec] = &[
    f!("Format", true, ["https://www.debian.org/doc/packaging-manuals/copyright-format/1.0/", "http://dep.debian.net/deps/dep5"], Exact, None),
    // split('\n') / join("\n")
    f!("Files-Excluded", false, ["vendor/*", "vendor/*\ndocs/*.pdf\n*.min.js"], Lines, None),
    text!("Source", "https://example.com/foo", "https://example.org/releases"),
    text!("Upstream-Contact", "Joe Bloggs <joe@example.com>", "Jane Doe <jane@example.com>"),
];

// ---- debian_copyright::lossy::FilesParagraph --------------------------------------------------------------
const COPYRIGHT_FILES: &[FieldSpec] = &[
    // split_whitespace / join("\n")
    f!("Files", true, ["*", "debian/*", "src/* docs/*.txt"], Words, None),
    // License: FromStr never fails; "name" or "name\ntext" are printed back as they are
    f!("License", true, ["GPL-3+", "MIT", "GPL-3+\nThis program is free software\n.\nmore text"], Normal, None),
    // split('\n') / join("\n")
    f!("Copyright", true, ["2019 John Doe", "2019 John Doe\n2020-2023 Jane Packager <jane@example.com>"], Lines, None),
    text!("Comment", "Debian packaging", "Debian packaging\nis licensed under the GPL-3+."),
];

// ---- debian_copyright::lossy::LicenseParagraph ------------------------------------------------------------
const COPYRIGHT_LICENSE: &[FieldSpec] = &[
    f!("License", true, ["GPL-3+", "GPL-3+\nThis program is free software\n.\nmore text", "MIT\nPermission is hereby granted"], Normal, None),
    text!("Comment", "a comment", "a comment\non two lines"),
];

// ---- dep3::lossy::PatchHeader -----------------------------------------------------------------------------
const DEP3_PATCH_HEADER: &[FieldSpec] = &[
    // parse_origin / format_origin: "[category, ]origin" with origin "commit:<id>" or anything else; never fails
    f!("Origin", false, ["upstream, https://example.com/commit/1", "commit:abc123", "backport, commit:abc123", "Ubuntu, https://launchpad.net/x", "other, Fedora, https://example.com/p", "vendor, https://Example.com/Patch/ABC"], Normal, None),
    // "no" / "not-needed" / anything else = reference; never fails
    f!("Forwarded", false, ["no", "not-needed", "https://lists.example.com/msg/1", "https://GitHub.com/Example/Widget/pull/42#IssueComment-XyZ", "upstream, 2.0"], Normal, None),
    text!("Author", "John Doe <john.doe@example.com>", "Jane Doe <jane@example.com>"),
    text!("Reviewed-by", "Jane Doe <jane@example.com>", "John Doe <john.doe@example.com>"),
    f!("Bug-Debian", false, ["https://bugs.debian.org/123456", "https://bugs.debian.org/cgi-bin/bugreport.cgi?bug=510219"], Normal, Some("not a url")),
    // chrono::NaiveDate, "%Y-%m-%d" both ways
    f!("Last-Update", false, ["2023-01-15", "1999-12-31"], Normal, Some("yesterday")),
    f!("Applied-Upstream", false, ["commit:abc123", "1.2.3", "https://example.com/commit/1", "https://Example.com/Commit/ABC", "upstream, 2.0", "vendor"], Normal, None),
    f!("Bug", false, ["https://bugzilla.example.com/bug.cgi?id=123456", "https://example.com/"], Normal, Some("not a url")),
    text!("Description", "fix a bug", "fix a bug\nThis fixes the bug\n.\nfor good"),
];

// ---- apt_sources::Repository ------------------------------------------------------------------------------
const APT_REPOSITORY: &[FieldSpec] = &[
    f!("Enabled", false, ["yes", "no"], Exact, Some("maybe")),
    // HashSet<RepositoryType> (printed sorted since fix 80a2fbd)
    f!("Types", true, ["deb", "deb-src", "deb deb-src"], Words, Some("rpm")),
    // split_whitespace -> Url, printed with url::Url::as_str joined by " "
    f!("URIs", true, ["http://ports.ubuntu.com/", "https://deb.debian.org/debian", "http://ports.ubuntu.com/ https://deb.debian.org/debian"], Words, Some("nourl")),
    f!("Suites", true, ["noble", "noble noble-updates noble-backports"], Words, None),
    f!("Components", true, ["main", "main contrib non-free"], Words, None),
    // Vec<String>, not Option: mandatory for the derive although APT treats it as optional
    f!("Architectures", true, ["arm64", "amd64 arm64"], Words, None),
    f!("Languages", false, ["en", "en de fr"], Words, None),
    f!("Targets", false, ["Packages", "Packages Translations"], Words, None),
    // read with the yes/no deserialiser; no serialiser configured
    f!("PDiffs", false, ["yes", "no"], Exact, Some("maybe")),
    f!("By-Hash", false, ["yes", "no", "force"], Normal, Some("maybe")),
    // plain bool FromStr / Display
    f!("Allow-Insecure", false, ["false", "true"], Normal, Some("maybe")),
    f!("Allow-Weak", false, ["false", "true"], Normal, Some("maybe")),
    f!("Allow-Downgrade-To-Insecure", false, ["false", "true"], Normal, Some("maybe")),
    f!("Trusted", false, ["true", "false"], Normal, Some("maybe")),
    // Signature: one line = key path; several lines = key block, which Display starts on the continuation line
    // (compared as lines, so that the placement of the first line is not counted as a difference)
    f!(
        "Signed-By",
        false,
        ["/usr/share/keyrings/ubuntu-archive-keyring.gpg", "-----BEGIN PGP PUBLIC KEY BLOCK-----\n.\nmDMEY865UxYJKwYBBAHaRw8BAQdAd7Z0srwuhlB6JKFkcf4HU4SSS\n=5NZE\n-----END PGP PUBLIC KEY BLOCK-----"],
        Lines,
        None
    ),
    text!("X-Repolib-Name", "ubuntu-ports", "Debian Main"),
    text!("Description", "Ubuntu ports", "Debian main archive"),
];

// ---- debian_control::lossy::ftpmaster::Removal ------------------------------------------------------
const REMOVAL: &[FieldSpec] = &[
    f!("Date", true, ["Thu, 01 Jan 2015 00:00:00 +0000", "Fri, 02 Jan 2015 10:00:00 +0000"], Exact, None),
    f!("Suite", false, ["unstable", "experimental"], Exact, None),
    f!("Ftpmaster", true, ["Joe Admin", "Jane Admin"], Exact, None),
    f!("Sources", false, ["foo_1.0-1", "foo_1.0-1\nbar_2.0-1"], Lines, None),
    f!("Binaries", false, ["foo_1.0-1 [amd64]", "foo_1.0-1 [amd64]\nlibfoo1_1.0-1 [amd64, i386]"], Lines, None),
    f!("Reason", true, ["ROM; obsolete", "RoQA; dead upstream"], Exact, None),
    f!("Bug", false, ["123456", "1", "4294967295"], Normal, Some("4294967296")),
];

pub fn specs() -> Vec<ParaSpec> {
    vec![
        para_spec!(debian_control::lossy::Source, "lossy::control::Source", CONTROL_SOURCE, items),
        para_spec!(debian_control::lossy::Binary, "lossy::control::Binary", CONTROL_BINARY, items),
        para_spec!(debian_control::lossy::apt::Release, "lossy::apt::Release", APT_RELEASE, eq),
        para_spec!(debian_control::lossy::apt::Source, "lossy::apt::Source", APT_SOURCE, eq),
        para_spec!(debian_control::lossy::apt::Package, "lossy::apt::Package", APT_PACKAGE, eq),
        para_spec!(debian_control::lossy::buildinfo::Buildinfo, "lossy::buildinfo::Buildinfo", BUILDINFO, items),
        para_spec!(debian_control::lossy::ftpmaster::Removal, "lossy::ftpmaster::Removal", REMOVAL, items),
        para_spec!(debian_copyright::lossy::Header, "lossy::copyright::Header", COPYRIGHT_HEADER, eq),
        para_spec!(debian_copyright::lossy::FilesParagraph, "lossy::copyright::FilesParagraph", COPYRIGHT_FILES, eq),
        para_spec!(debian_copyright::lossy::LicenseParagraph, "lossy::copyright::LicenseParagraph", COPYRIGHT_LICENSE, eq),
        para_spec!(dep3::lossy::PatchHeader, "lossy::dep3::PatchHeader", DEP3_PATCH_HEADER, eq),
        para_spec!(apt_sources::Repository, "apt_sources::Repository", APT_REPOSITORY, eq),
    ]
}
