#!/bin/sh
# usage: tools/seedtest.sh <patch.diff> <Cxx> [quick|thorough]
# applies a seeded property-breaking change to /repo, runs one check, and ALWAYS reverts /repo afterwards
patch=$1; prop=$2; tier=${3:-quick}
cd /verif || exit 2
if [ -n "$(git -C /repo status --porcelain --untracked-files=no)" ]; then echo "seedtest: /repo has uncommitted changes" >&2; exit 2; fi
git -C /repo apply "$patch" || { echo "seedtest: patch does not apply" >&2; exit 2; }
./check "$prop" --tier "$tier" > /tmp/seedtest.$$.log 2>&1; rc=$?
git -C /repo checkout -- . 
grep -m3 "^VIOLATION" /tmp/seedtest.$$.log; grep -A1 -m2 "^VIOLATION" /tmp/seedtest.$$.log | grep clause | cut -c1-400; tail -1 /tmp/seedtest.$$.log | cut -c1-300
rm -f /tmp/seedtest.$$.log
echo "seedtest: $prop tier=$tier exit=$rc"
exit $rc
