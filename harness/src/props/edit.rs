//! E3 for the deb822 editor: live-object replay of edit histories, list-of-pairs reference model,
//! locality / re-read / handle-visibility invariants.  Shared by C04 (field edits) and C05
//! (paragraph edits).  DESIGN 2.5, 3/C04, 3/C05.

use crate::core::*;
use deb822_lossless::{Deb822, Paragraph};
use rowan::ast::AstNode;
use serde::{Deserialize, Serialize};
use std::str::FromStr;

pub type PModel = Vec<(String, String)>;
pub type DModel = Vec<PModel>;

#[derive(Clone, Serialize, Deserialize, PartialEq, Debug)]
pub enum Init {
    /// parsed with the strict reader
    Text(String),
    /// Deb822::from_iter over paragraphs built from (name, value) pairs (&str flavour)
    BuiltStr(DModel),
    /// Deb822::from_iter over paragraphs built from (String, String) pairs via From<Vec<_>>
    BuiltString(DModel),
    /// a paragraph that is not part of any document, built from pairs
    Standalone(PModel),
    /// Paragraph::from_str(text): handle to the first paragraph of its own parsed tree
    ParaFromStr(String),
    /// the paragraphs of the parsed text collected into a new document (FromIterator<Paragraph>), in reverse order when set
    Collected(String, bool),
    /// Deb822::new()
    New,
    /// the text parsed and then reformatted by Deb822::wrap_and_sort (paragraphs through Paragraph::wrap_and_sort with
    /// one-space indentation): a tree assembled by the reformatter, not by the parser
    Reformatted(String),
}

#[derive(Clone, Serialize, Deserialize, PartialEq, Debug)]
pub enum Op {
    Set(usize, String, String),
    Insert(usize, String, String),
    Remove(usize, String),
    Rename(usize, String, String),
    AddPara,
    /// add_paragraph(), then set(k, v) through the returned handle
    AddParaSet(String, String),
    InsertPara(usize),
    InsertParaSet(usize, String, String),
    RemovePara(usize),
}

#[derive(Clone, Serialize, Deserialize, PartialEq, Debug)]
pub struct EditCase {
    pub init: Init,
    /// apply field edits through paragraph handles taken before the first operation
    pub early: bool,
    pub ops: Vec<Op>,
    /// part of the no-cache cross-check pass (not counted as a distinct state)
    #[serde(default, skip_serializing)]
    pub nocache: bool,
}

pub struct Live {
    pub doc: Option<Deb822>,
    pub solo: Option<Paragraph>,
}

impl Live {
    pub fn build(init: &Init) -> Option<(Live, DModel)> {
        match init {
            Init::Text(t) => {
                let d = Deb822::from_str(t).ok()?;
                let m: DModel = d.paragraphs().map(|p| p.items().collect()).collect();
                Some((Live { doc: Some(d), solo: None }, m))
            }
            Init::BuiltStr(m) => {
                let d: Deb822 = m
                    .iter()
                    .map(|p| {
                        if p.is_empty() {
                            Paragraph::new()
                        } else {
                            p.iter().map(|(k, v)| (k.as_str(), v.as_str())).collect::<Paragraph>()
                        }
                    })
                    .collect();
                Some((Live { doc: Some(d), solo: None }, m.clone()))
            }
            Init::BuiltString(m) => {
                let d: Deb822 = m.iter().map(|p| Paragraph::from(p.clone())).collect();
                Some((Live { doc: Some(d), solo: None }, m.clone()))
            }
            Init::Standalone(p) => {
                let para = if p.is_empty() {
                    Paragraph::new()
                } else {
                    Paragraph::from(p.iter().map(|(k, v)| (k.as_str(), v.as_str())).collect::<Vec<_>>())
                };
                Some((Live { doc: None, solo: Some(para) }, vec![p.clone()]))
            }
            Init::New => Some((Live { doc: Some(Deb822::new()), solo: None }, vec![])),
            Init::Collected(t, rev) => {
                let d0 = Deb822::from_str(t).ok()?;
                let mut ps: Vec<Paragraph> = d0.paragraphs().collect();
                if *rev {
                    ps.reverse();
                }
                let m: DModel = ps.iter().map(|p| p.items().collect()).collect();
                let d: Deb822 = ps.into_iter().collect();
                Some((Live { doc: Some(d), solo: None }, m))
            }
            Init::Reformatted(t) => {
                let d0 = Deb822::from_str(t).ok()?;
                let wp = |p: &Paragraph| p.wrap_and_sort(deb822_lossless::Indentation::Spaces(1), false, None, None, None);
                let d = d0.wrap_and_sort(None, Some(&wp));
                let m: DModel = d.paragraphs().map(|p| p.items().collect()).collect();
                Some((Live { doc: Some(d), solo: None }, m))
            }
            Init::ParaFromStr(t) => {
                let p = Paragraph::from_str(t).ok()?;
                // the handle still belongs to the document it was parsed from
                let mut n = p.syntax().clone();
                while let Some(par) = n.parent() {
                    n = par;
                }
                let d = <Deb822 as AstNode>::cast(n)?;
                let m: DModel = d.paragraphs().map(|p| p.items().collect()).collect();
                Some((Live { doc: Some(d), solo: Some(p) }, m))
            }
        }
    }
    pub fn text(&self) -> String {
        match (&self.doc, &self.solo) {
            (Some(d), _) => d.to_string(),
            (None, Some(p)) => {
                // a paragraph obtained from Paragraph::from_str still belongs to its document
                let mut n = p.syntax().clone();
                while let Some(par) = n.parent() {
                    n = par;
                }
                n.text().to_string()
            }
            _ => String::new(),
        }
    }
    pub fn para(&self, i: usize) -> Option<Paragraph> {
        match (&self.doc, &self.solo) {
            (_, Some(p)) if i == 0 => <Paragraph as AstNode>::cast(p.syntax().clone()),
            (Some(d), _) => d.paragraphs().nth(i),
            _ => None,
        }
    }
    pub fn read(&self) -> DModel {
        match (&self.doc, &self.solo) {
            (Some(d), _) => d.paragraphs().map(|p| p.items().collect()).collect(),
            (None, Some(p)) => vec![p.items().collect()],
            _ => vec![],
        }
    }
    pub fn dump(&self) -> String {
        let root = match (&self.doc, &self.solo) {
            (Some(d), _) => d.syntax().clone(),
            (None, Some(p)) => {
                let mut n = p.syntax().clone();
                while let Some(par) = n.parent() {
                    n = par;
                }
                n
            }
            _ => return String::new(),
        };
        let mut s = String::new();
        for ev in root.preorder_with_tokens() {
            match ev {
                rowan::WalkEvent::Enter(rowan::NodeOrToken::Node(n)) => {
                    s.push_str(&format!("({:?}", n.kind()));
                }
                rowan::WalkEvent::Enter(rowan::NodeOrToken::Token(t)) => {
                    s.push_str(&format!("[{:?} {:?}]", t.kind(), t.text()));
                }
                rowan::WalkEvent::Leave(rowan::NodeOrToken::Node(_)) => s.push(')'),
                _ => {}
            }
        }
        s
    }
}

pub fn model_apply(m: &mut DModel, op: &Op) {
    match op {
        Op::Set(p, k, v) => {
            if let Some(para) = m.get_mut(*p) {
                if let Some(f) = para.iter_mut().find(|(k2, _)| k2 == k) {
                    f.1 = v.clone();
                } else {
                    para.push((k.clone(), v.clone()));
                }
            }
        }
        Op::Insert(p, k, v) => {
            if let Some(para) = m.get_mut(*p) {
                para.push((k.clone(), v.clone()));
            }
        }
        Op::Remove(p, k) => {
            if let Some(para) = m.get_mut(*p) {
                para.retain(|(k2, _)| k2 != k);
            }
        }
        Op::Rename(p, k, k2) => {
            if let Some(para) = m.get_mut(*p) {
                if let Some(f) = para.iter_mut().find(|(kk, _)| kk == k) {
                    f.0 = k2.clone();
                }
            }
        }
        Op::AddPara => m.push(vec![]),
        Op::AddParaSet(k, v) => m.push(vec![(k.clone(), v.clone())]),
        Op::InsertPara(i) => {
            let at = (*i).min(m.len());
            m.insert(at, vec![]);
        }
        Op::InsertParaSet(i, k, v) => {
            let at = (*i).min(m.len());
            m.insert(at, vec![(k.clone(), v.clone())]);
        }
        Op::RemovePara(i) => {
            if *i < m.len() {
                m.remove(*i);
            }
        }
    }
}

/// Apply an operation to the live object.  `early` handles are used for field edits when given.
pub fn live_apply(l: &mut Live, early: Option<(&Vec<Paragraph>, &Vec<Option<usize>>)>, op: &Op) -> Result<Option<bool>, String> {
    // field edits go through the handle taken before the first operation when there is one for that paragraph
    // (paragraph-level operations shift the correspondence: `map` says which model paragraph each early handle stands for)
    let handle = |l: &Live, p: usize| -> Result<Paragraph, String> {
        if let Some((e, map)) = &early {
            let h = if map.is_empty() { if p < e.len() { Some(p) } else { None } } else { map.iter().position(|m| *m == Some(p)) };
            if let Some(h) = h {
                return e.get(h).and_then(|h| <Paragraph as AstNode>::cast(h.syntax().clone())).ok_or("no such early handle".to_string());
            }
        }
        l.para(p).ok_or("no such paragraph".to_string())
    };
    match op {
        Op::Set(p, k, v) => handle(l, *p)?.set(k, v),
        Op::Insert(p, k, v) => handle(l, *p)?.insert(k, v),
        Op::Remove(p, k) => handle(l, *p)?.remove(k),
        Op::Rename(p, k, k2) => {
            return Ok(Some(handle(l, *p)?.rename(k, k2)));
        }
        Op::AddPara => {
            l.doc.as_mut().ok_or("no document")?.add_paragraph();
        }
        Op::AddParaSet(k, v) => {
            let mut h = l.doc.as_mut().ok_or("no document")?.add_paragraph();
            h.set(k, v);
        }
        Op::InsertPara(i) => {
            l.doc.as_mut().ok_or("no document")?.insert_paragraph(*i);
        }
        Op::InsertParaSet(i, k, v) => {
            let mut h = l.doc.as_mut().ok_or("no document")?.insert_paragraph(*i);
            h.set(k, v);
        }
        Op::RemovePara(i) => {
            l.doc.as_mut().ok_or("no document")?.remove_paragraph(*i);
        }
    }
    Ok(None)
}

// ---------------------------------------------------------------------------------------------
// Independent line scanner for well-formed documents (used for the locality oracle)

#[derive(Debug, Clone, PartialEq)]
pub struct EntrySpan {
    pub name: String,
    pub start: usize,
    pub end: usize,
}
#[derive(Debug, Clone, PartialEq)]
pub struct ParaSpan {
    pub entries: Vec<EntrySpan>,
    pub start: usize,
    /// ends of in-paragraph comment lines that follow the last entry (candidate append points)
    pub tail_points: Vec<usize>,
    pub end: usize,
}

pub struct Scan {
    pub paras: Vec<ParaSpan>,
    pub comments: Vec<String>,
}

pub fn scan(text: &str) -> Scan {
    let mut paras: Vec<ParaSpan> = vec![];
    let mut comments = vec![];
    let mut in_para = false;
    let mut off = 0usize;
    for line in text.split_inclusive('\n') {
        let body = line.strip_suffix('\n').unwrap_or(line);
        let (s, e) = (off, off + line.len());
        off = e;
        if body.is_empty() {
            in_para = false;
        } else if body.starts_with('#') {
            comments.push(body.to_string());
            if in_para {
                let p = paras.last_mut().unwrap();
                p.tail_points.push(e);
                p.end = e;
            }
        } else if body.starts_with(' ') || body.starts_with('\t') {
            if in_para {
                let p = paras.last_mut().unwrap();
                if let Some(en) = p.entries.last_mut() {
                    // continuation also swallows comment lines that preceded it
                    en.end = e;
                }
                p.tail_points.clear();
                p.end = e;
            }
        } else {
            let name = body.split(':').next().unwrap_or("").trim_end().to_string();
            if !in_para {
                paras.push(ParaSpan { entries: vec![], start: s, tail_points: vec![], end: e });
                in_para = true;
            }
            let p = paras.last_mut().unwrap();
            p.entries.push(EntrySpan { name, start: s, end: e });
            p.tail_points.clear();
            p.end = e;
        }
    }
    Scan { paras, comments }
}

pub fn strip_empty(m: &DModel) -> DModel {
    m.iter().filter(|p| !p.is_empty()).cloned().collect()
}

/// Check the invariants for the last operation of a history.  Everything before it is replayed
/// on the live object without checking (those transitions were checked when they were reached).
pub fn check_edit(c: &EditCase, st: &mut Stats, pid: &str) -> Vec<Viol> {
    let r = guard(200_000, || -> Result<(Vec<Viol>, Option<String>), String> {
        let Some((mut live, mut model)) = Live::build(&c.init) else {
            return Err("initial state not constructible".into());
        };
        let early: Vec<Paragraph> = (0..model.len()).filter_map(|i| live.para(i)).collect();
        // a second handle to the whole document, taken before the first operation
        let early_doc: Option<Deb822> = live.doc.as_ref().and_then(|d| <Deb822 as AstNode>::cast(d.syntax().clone()));
        // which model paragraph each early handle stands for (paragraph-level operations shift or drop them)
        let mut early_map: Vec<Option<usize>> = if early.len() == model.len() { (0..early.len()).map(Some).collect() } else { vec![] };
        let remap = |map: &mut Vec<Option<usize>>, op: &Op, len_before: usize| match op {
            Op::InsertPara(i) | Op::InsertParaSet(i, ..) => {
                let at = (*i).min(len_before);
                for m in map.iter_mut().flatten() {
                    if *m >= at {
                        *m += 1;
                    }
                }
            }
            Op::RemovePara(i) if *i < len_before => {
                for m in map.iter_mut() {
                    match *m {
                        Some(j) if j == *i => *m = None,
                        Some(j) if j > *i => *m = Some(j - 1),
                        _ => {}
                    }
                }
            }
            _ => {}
        };
        let n = c.ops.len();
        if n == 0 {
            let out = check_state(&live, &model, &early, &early_map);
            return Ok((out, Some(key_of(&live, &model, &early, c.early))));
        }
        for op in &c.ops[..n - 1] {
            live_apply(&mut live, if c.early { Some((&early, &early_map)) } else { None }, op)?;
            remap(&mut early_map, op, model.len());
            model_apply(&mut model, op);
        }
        let before = live.text();
        let model_before = model.clone();
        let op = &c.ops[n - 1];
        // handles taken in the MIDDLE of the history (after every operation but the last one)
        let mid: Vec<Paragraph> = (0..model.len()).filter_map(|i| live.para(i)).collect();
        let mut mid_map: Vec<Option<usize>> = if mid.len() == model.len() { (0..mid.len()).map(Some).collect() } else { vec![] };
        let removed_text: Option<String> = match op {
            Op::RemovePara(i) => live.para(*i).map(|p| p.to_string()),
            _ => None,
        };
        let returned = live_apply(&mut live, if c.early { Some((&early, &early_map)) } else { None }, op)?;
        remap(&mut early_map, op, model.len());
        remap(&mut mid_map, op, model.len());
        model_apply(&mut model, op);
        let after = live.text();
        // handles taken before the first operation see every later edit of their paragraph, whichever handle made it
        let mut out = check_state(&live, &model, &early, &early_map);
        if n >= 2 {
            // (only the handle clause: the rest of check_state was just evaluated)
            let text = live.text();
            for (i, h) in mid.iter().enumerate() {
                if let Some(m) = mid_map.get(i).copied().flatten().and_then(|j| model.get(j)) {
                    let items: Vec<(String, String)> = h.items().collect();
                    if &items != m {
                        out.push(viol("early-handle-sees-edit", format!("text {:?}: the handle taken to paragraph {} before the LAST operation reports {:?}, model {:?}", text, i, items, m)));
                    }
                }
            }
        }
        if let Some(ed) = &early_doc {
            if ed.to_string() != after {
                out.push(viol("early-handle-sees-edit", format!("{:?}: the document handle taken before the first operation prints {:?}, the document {:?}", op, ed.to_string(), after)));
            }
        }
        // what a paragraph handle prints is part of what the document prints, and reads as that paragraph
        for (i, m) in model.iter().enumerate() {
            if let Some(h) = live.para(i) {
                let ht = h.to_string();
                if !after.contains(&ht) {
                    out.push(viol("list-model", format!("{:?}: paragraph {} prints {:?}, which is not part of the document {:?}", op, i, ht, after)));
                } else if !m.is_empty() {
                    match Deb822::from_str(&ht) {
                        Ok(d) => {
                            let re: DModel = d.paragraphs().map(|p| p.items().collect()).collect();
                            if strip_empty(&re) != vec![m.clone()] {
                                out.push(viol("list-model", format!("{:?}: paragraph {} prints {:?}, which reads as {:?}, model {:?}", op, i, ht, re, m)));
                            }
                        }
                        Err(e) => out.push(viol("list-model", format!("{:?}: paragraph {} prints {:?}, which does not parse: {}", op, i, ht, e.to_string().replace('\n', "; ")))),
                    }
                }
            }
        }
        if let (Some(r), Op::Rename(p, k, _)) = (returned, op) {
            let had = model_before.get(*p).map_or(false, |pp| pp.iter().any(|(kk, _)| kk == k));
            if r != had {
                out.push(viol("rename-returns", format!("{:?} on {:?}: rename returned {}, the field {}", op, before, r, if had { "existed" } else { "did not exist" })));
            }
        }
        if let Op::RemovePara(i) = op {
            if *i >= model_before.len() && before != after {
                out.push(viol("locality", format!("{:?}: removal beyond the end changed the text: before {:?} after {:?}", op, before, after)));
            }
        }
        out.extend(check_locality(&before, &after, &model_before, &model, op, removed_text.as_deref()));
        let _ = pid;
        Ok((out, Some(key_of(&live, &model, &early, c.early))))
    });
    match r {
        Ok(Ok((vs, key))) => {
            st.key = key;
            if vs.is_empty() {
                st.outcome("ok");
            }
            vs
        }
        Ok(Err(e)) => {
            st.outcome("not-applicable");
            let _ = e;
            vec![]
        }
        Err(p) => {
            st.outcome("panic");
            vec![viol(if is_budget(&p) { "hang" } else { "panic" }, panic_detail(&p))]
        }
    }
}

fn key_of(live: &Live, model: &DModel, early: &[Paragraph], use_early: bool) -> String {
    let mut k = live.dump();
    k.push_str(&format!("|{:?}", model));
    if use_early {
        for h in early {
            k.push_str(&format!("|{}{}", h.syntax().is_mutable() as u8, h.syntax().parent().is_some() as u8));
        }
    }
    k
}

fn check_state(live: &Live, model: &DModel, early: &[Paragraph], early_map: &[Option<usize>]) -> Vec<Viol> {
    let mut out = vec![];
    let text = live.text();
    let got = live.read();
    if got != *model {
        out.push(viol("list-model", format!("text {:?}: live object reports {:?}, model {:?}", text, got, model)));
    }
    for (i, h) in early.iter().enumerate() {
        if let Some(m) = early_map.get(i).copied().flatten().and_then(|j| model.get(j)) {
            let items: PModel = h.items().collect();
            if items != *m {
                out.push(viol("early-handle-sees-edit", format!("text {:?}: the handle taken to paragraph {} before the first operation reports {:?}, model {:?}", text, i, items, m)));
            }
        }
    }
    // the other readers of a paragraph agree with the model
    if got == *model {
        for (i, m) in model.iter().enumerate() {
            let Some(h) = live.para(i) else { continue };
            let keys: Vec<String> = h.keys().collect();
            let want_keys: Vec<String> = m.iter().map(|(k, _)| k.clone()).collect();
            if keys != want_keys {
                out.push(viol("accessors-agree", format!("text {:?}: paragraph {} keys() {:?}, model {:?}", text, i, keys, want_keys)));
            }
            // present keys, an absent key, and near misses of the present keys (field lookup is exact)
            let cased: Vec<String> = m
                .iter()
                .flat_map(|(k, _)| {
                    // another letter case, a proper prefix, an extension of a present name
                    let mut v = vec![k.to_lowercase(), k.to_uppercase(), format!("{}x", k)];
                    if k.chars().count() > 1 {
                        let mut p: String = k.clone();
                        p.pop();
                        v.push(p);
                    }
                    v
                })
                .collect();
            let mut probe: Vec<&str> = m.iter().map(|(k, _)| k.as_str()).collect();
            probe.push("Zz-absent");
            probe.extend(cased.iter().map(|k| k.as_str()));
            probe.sort();
            probe.dedup();
            for k in probe {
                let first = m.iter().find(|(kk, _)| kk == k).map(|(_, v)| v.clone());
                let all: Vec<String> = m.iter().filter(|(kk, _)| kk == k).map(|(_, v)| v.clone()).collect();
                let g = h.get(k);
                let ga: Vec<String> = h.get_all(k).collect();
                if g != first || ga != all || h.contains_key(k) != first.is_some() {
                    out.push(viol("accessors-agree", format!("text {:?}: paragraph {} key {:?}: get {:?} get_all {:?} contains_key {}, model {:?}", text, i, k, g, ga, h.contains_key(k), all)));
                }
            }
        }
    }
    match Deb822::from_str(&text) {
        Ok(d) => {
            let re: DModel = d.paragraphs().map(|p| p.items().collect()).collect();
            if strip_empty(&re) != strip_empty(model) {
                out.push(viol("re-read", format!("text {:?} re-reads to {:?}, model {:?}", text, re, model)));
            }
        }
        Err(e) => out.push(viol("re-read", format!("text {:?} does not re-read: {}", text, e.to_string().replace('\n', "; ")))),
    }
    out
}

/// index of model paragraph `p` among the non-empty paragraphs, if it is non-empty
fn text_index(m: &DModel, p: usize) -> Option<usize> {
    if m.get(p)?.is_empty() {
        return None;
    }
    Some(m[..p].iter().filter(|x| !x.is_empty()).count())
}

fn splice_ok(before: &str, after: &str, start: usize, end: usize) -> bool {
    let (p, s) = (&before[..start], &before[end..]);
    after.len() >= p.len() + s.len() && after.starts_with(p) && after.ends_with(s)
}

fn check_locality(before: &str, after: &str, mb: &DModel, ma: &DModel, op: &Op, removed_text: Option<&str>) -> Vec<Viol> {
    let sb = scan(before);
    let sa = scan(after);
    let mut out = vec![];
    let fail = |what: &str| viol("locality", format!("{:?}: before {:?} after {:?}: {}", op, before, after, what));
    // the scanner must agree with the model on the shape of `before`; otherwise the document is not in
    // the scanner's domain and locality is not judged (the other invariants still are)
    let shape_b: Vec<Vec<String>> = sb.paras.iter().map(|p| p.entries.iter().map(|e| e.name.clone()).collect()).collect();
    let want_b: Vec<Vec<String>> = strip_empty(mb).iter().map(|p| p.iter().map(|(k, _)| k.clone()).collect()).collect();
    if shape_b != want_b {
        return out;
    }
    // comments never change -- except that comment lines inside a removed paragraph (as the
    // paragraph handle itself prints it) may go with it
    let mut expect_comments = sb.comments.clone();
    if let Some(rt) = removed_text {
        let mut reduced = sb.comments.clone();
        for l in rt.split('\n').filter(|l| l.starts_with('#')) {
            if let Some(i) = reduced.iter().position(|c| c == l) {
                reduced.remove(i);
            }
        }
        if reduced == sa.comments {
            expect_comments = reduced;
        }
    }
    if expect_comments != sa.comments {
        out.push(fail(&format!("comment lines changed: {:?} -> {:?}", sb.comments, sa.comments)));
    }
    match op {
        Op::Set(p, k, _) | Op::Rename(p, k, _) | Op::Insert(p, k, _) => {
            let existing = if matches!(op, Op::Insert(..)) { None } else { mb.get(*p).and_then(|pp| pp.iter().position(|(kk, _)| kk == k)) };
            match (existing, text_index(mb, *p)) {
                (Some(fi), Some(ti)) => {
                    let e = &sb.paras[ti].entries[fi];
                    if !splice_ok(before, after, e.start, e.end) {
                        out.push(fail("bytes outside the touched field changed"));
                    }
                }
                (None, Some(ti)) => {
                    if matches!(op, Op::Rename(..)) {
                        if before != after {
                            out.push(fail("rename of an absent field changed the text"));
                        }
                    } else {
                        // append: at the end of the last entry or after one of the trailing comment lines
                        let ps = &sb.paras[ti];
                        let mut points = vec![ps.entries.last().map(|e| e.end).unwrap_or(ps.start)];
                        points.extend(ps.tail_points.iter().copied());
                        if !points.iter().any(|e| splice_ok(before, after, *e, *e)) {
                            out.push(fail("appended field is not a pure insertion at the end of its paragraph"));
                        }
                    }
                }
                (_, None) => {
                    // paragraph without text (no fields): any pure insertion is accepted
                    if matches!(op, Op::Rename(..)) {
                        if before != after {
                            out.push(fail("rename in an empty paragraph changed the text"));
                        }
                    } else {
                        let lcp = before.bytes().zip(after.bytes()).take_while(|(a, b)| a == b).count();
                        let mut ok = false;
                        for e in 0..=lcp.min(before.len()) {
                            if before.is_char_boundary(e) && splice_ok(before, after, e, e) {
                                ok = true;
                                break;
                            }
                        }
                        if !ok {
                            out.push(fail("field added to an empty paragraph is not a pure insertion"));
                        }
                    }
                }
            }
        }
        Op::Remove(p, k) => {
            if let Some(ti) = text_index(mb, *p) {
                let mut expect = String::new();
                let mut pos = 0;
                for (fi, (kk, _)) in mb[*p].iter().enumerate() {
                    if kk == k {
                        let e = &sb.paras[ti].entries[fi];
                        expect.push_str(&before[pos..e.start]);
                        pos = e.end;
                    }
                }
                expect.push_str(&before[pos..]);
                if expect != after {
                    out.push(fail(&format!("expected exactly the removed fields' lines to disappear: {:?}", expect)));
                }
            } else if before != after {
                out.push(fail("remove in an empty paragraph changed the text"));
            }
        }
        Op::AddPara | Op::AddParaSet(..) | Op::InsertPara(_) | Op::InsertParaSet(..) | Op::RemovePara(_) => {
            // text of every other paragraph unchanged, in order
            // (modulo the newline terminating a paragraph's last line, which an insertion may have to add)
            let tb: Vec<&str> = sb.paras.iter().map(|p| before[p.start..p.end].trim_end_matches('\n')).collect();
            let ta: Vec<&str> = sa.paras.iter().map(|p| after[p.start..p.end].trim_end_matches('\n')).collect();
            let mut expect: Vec<Option<&str>> = tb.iter().map(|t| Some(*t)).collect();
            match op {
                Op::AddParaSet(..) => expect.push(None),
                Op::InsertParaSet(i, ..) => {
                    let at = (*i).min(mb.len());
                    let ti = mb[..at].iter().filter(|x| !x.is_empty()).count();
                    expect.insert(ti, None);
                }
                Op::RemovePara(i) => {
                    if let Some(ti) = text_index(mb, *i) {
                        expect.remove(ti);
                    }
                }
                _ => {}
            }
            let shape_ok = expect.len() == ta.len() && expect.iter().zip(ta.iter()).all(|(e, a)| e.map_or(true, |e| e == *a));
            if !shape_ok {
                out.push(fail(&format!("other paragraphs' text changed: expected {:?} got {:?}", expect, ta)));
            }
            let _ = ma;
        }
    }
    out
}
