p='/verif/harness/src/props/c17.rs'; s=open(p).read()
old=s[s.index("        // lookups\n"):s.index("    fn check(&self, c: &C17Case, st: &mut Stats) -> Vec<Viol> {")]
new='''        // lookups, sharded by the configuration of the first Files paragraph
        let cfgs = files_cfgs();
        let li = shard - ps.n_shards() - 1;
        let lic_sets: [&[usize]; 4] = [&[], &[0], &[1, 0], &[0, 0]];
        let mut emit = |files: &Vec<(usize, usize, bool, usize)>| {
            for licenses in lic_sets {
                for path in 0..LOOKUP_PATHS.len() {
                    f(&C17Case::Lookup { files: files.clone(), licenses: licenses.to_vec(), path });
                }
            }
        };
        if li == cfgs.len() {
            emit(&vec![]);
            return;
        }
        let first = cfgs[li];
        emit(&vec![first]);
        for second in &cfgs {
            emit(&vec![first, *second]);
            if t == Tier::Thorough {
                for third in &cfgs {
                    emit(&vec![first, *second, *third]);
                }
            }
        }
    }
'''
s=s.replace(old,new)
s=s.replace('''    fn n_shards(&self, t: Tier) -> usize {
        pat_space(t).n_shards() + 2
    }''','''    fn n_shards(&self, t: Tier) -> usize {
        pat_space(t).n_shards() + 1 + files_cfgs().len() + 1
    }''')
s=s.replace("pub struct C17;",'''/// configurations of one Files paragraph: first pattern x (second pattern: none / "*.c" same line /
/// "*.c" own line / "a/b" same line) x licence kind
fn files_cfgs() -> Vec<(usize, usize, bool, usize)> {
    let mut v = vec![];
    for p1 in 0..LOOKUP_PATTERNS.len() {
        for (p2, own) in [(0, false), (4, false), (4, true), (3, false)] {
            for lic in 0..LIC_KINDS {
                v.push((p1, p2, own, lic));
            }
        }
    }
    v
}

pub struct C17;''')
s=s.replace("use crate::kdev::product;\n","")
open(p,'w').write(s)
