//! C18 — typed field values round-trip through their text form (DESIGN 3/C18).
//! Engine; the per-type rows are in c18_rows.rs.

use crate::core::*;
use crate::strings::SeqSpace;
use serde::{Deserialize, Serialize};
use serde_json::{json, Value};

/// One typed value family.
pub struct TypeRow {
    /// e.g. "fields::Priority"
    pub ty: &'static str,
    /// the enumerated values of the family (enumerations exhaustively; records over token/size menus):
    /// for value i returns (Debug of v, v's text form, Debug of T::from_str(text) or the error)
    pub n_values: fn() -> usize,
    pub value: fn(usize) -> (String, String, Result<String, String>),
    /// canonical texts: print(parse(s)) must equal s
    pub canonical: &'static [&'static str],
    /// parse then print a text
    pub reprint: fn(&str) -> Result<String, String>,
    /// for keyword types: the complete keyword set (every other string must be rejected); empty for record types
    pub keywords: &'static [&'static str],
    /// keyword matching is documented as case-insensitive (then case variants are expected to be accepted)
    pub case_insensitive: bool,
    /// embedded-keyword rows: only strings passing the filter fit the keyword's slot in the composite
    pub filter: Option<fn(&str) -> bool>,
}

#[derive(Clone, Serialize, Deserialize, PartialEq, Debug)]
pub enum C18Case {
    Value { ty: String, i: usize },
    Canonical { ty: String, i: usize },
    Reject { ty: String, s: String },
}

pub struct C18;

fn rows() -> Vec<TypeRow> {
    crate::props::c18_rows::rows()
}

fn reject_alphabet(r: &TypeRow) -> Vec<String> {
    let mut letters: Vec<char> = r.keywords.iter().flat_map(|k| k.chars()).collect();
    letters.sort();
    letters.dedup();
    // keep the alphabet small: at most 8 keyword letters (first of each keyword first), plus '-', ' ', 'A'
    let mut firsts: Vec<char> = r.keywords.iter().filter_map(|k| k.chars().next()).collect();
    firsts.dedup();
    let mut pick: Vec<char> = vec![];
    for c in firsts.into_iter().chain(letters) {
        if !pick.contains(&c) && pick.len() < 8 {
            pick.push(c);
        }
    }
    pick.extend(['-', ' ', 'A', '\n', '\r', '\t', '\u{0}', '\u{a0}', '\u{130}', '\u{131}']);
    pick.dedup();
    pick.into_iter().map(|c| c.to_string()).collect()
}

/// complete edit-distance-1 neighbourhood of a keyword over the reject alphabet, plus single case flips
fn neighbourhood(k: &str, alpha: &[String]) -> Vec<String> {
    let cs: Vec<char> = k.chars().collect();
    let mut out = vec![];
    for i in 0..cs.len() {
        let mut d = cs.clone();
        d.remove(i);
        out.push(d.iter().collect::<String>());
        for a in alpha {
            let ac = a.chars().next().unwrap();
            if ac != cs[i] {
                let mut s = cs.clone();
                s[i] = ac;
                out.push(s.iter().collect());
            }
        }
        let flipped: String = if cs[i].is_lowercase() { cs[i].to_uppercase().collect() } else { cs[i].to_lowercase().collect() };
        if flipped != cs[i].to_string() {
            let mut s: Vec<String> = cs.iter().map(|c| c.to_string()).collect();
            s[i] = flipped;
            out.push(s.concat());
        }
    }
    for i in 0..=cs.len() {
        for a in alpha {
            let mut s = cs.clone();
            s.insert(i, a.chars().next().unwrap());
            out.push(s.iter().collect());
        }
    }
    out.sort();
    out.dedup();
    out
}

fn accepted_expected(r: &TypeRow, s: &str) -> bool {
    if r.case_insensitive {
        r.keywords.iter().any(|k| k.eq_ignore_ascii_case(s))
    } else {
        r.keywords.contains(&s)
    }
}

impl Prop for C18 {
    type Case = C18Case;
    fn id(&self) -> &'static str {
        "C18"
    }
    fn level(&self) -> &'static str {
        "exploration"
    }
    fn rule(&self, _t: Tier) -> String {
        "per typed value family: (1) every value of the family (enumerations exhaustively; records as the full product of small token / size menus incl. 0 and usize::MAX; VCS locations x branch x subpath) is printed and parsed back: parse(print(v)) == v; (2) every canonical text of the row: print(parse(s)) == s; (3) keyword types: every string over (up to 8 keyword letters + '-', ' ', 'A', line break, CR, tab, NUL, no-break space, dotted capital I, dotless i) up to length 4 (thorough 5) and the complete edit-distance-1 neighbourhood (deletions, substitutions, insertions, single case flips) of every keyword must be rejected unless it is a keyword (case variants are accepted only where documented); the same reject sets are replayed with the string in the keyword's place inside composite values (changes-file and package-list entries, the Priority / Multi-Arch / Types / By-Hash fields of the lossy typed paragraphs, the operator of a relation), whose own readers must reject it; all cases distinct per row; non-trivial = all".into()
    }
    fn bounds(&self, t: Tier) -> Value {
        let rs = rows();
        json!({"types": rs.iter().map(|r| json!({"type": r.ty, "values": (r.n_values)(), "canonical_texts": r.canonical.len(), "keywords": r.keywords})).collect::<Vec<_>>(), "reject_string_len": t.pick(4, 5)})
    }
    fn assumptions(&self) -> Vec<String> {
        vec!["record tokens are whitespace-free; PackageListEntry is explored with at most one extra key (two extras print in hash order)".into()]
    }
    fn n_shards(&self, _t: Tier) -> usize {
        rows().len() * 2
    }
    fn explore(&self, t: Tier, shard: usize, f: &mut dyn FnMut(&C18Case) -> Verdict) {
        let rs = rows();
        let r = &rs[shard / 2];
        if shard % 2 == 0 {
            for i in 0..(r.n_values)() {
                f(&C18Case::Value { ty: r.ty.to_string(), i });
            }
            for i in 0..r.canonical.len() {
                f(&C18Case::Canonical { ty: r.ty.to_string(), i });
            }
        } else if !r.keywords.is_empty() {
            let alpha = reject_alphabet(r);
            let ar: Vec<&str> = alpha.iter().map(|s| s.as_str()).collect();
            let sp = SeqSpace::new(&ar, t.pick(4, 5), 0);
            let mut seen = std::collections::HashSet::new();
            let fits = |s: &str| r.filter.map(|g| g(s)).unwrap_or(true);
            sp.explore(0, &mut |s, _| {
                seen.insert(s.to_string());
                if fits(s) {
                    f(&C18Case::Reject { ty: r.ty.to_string(), s: s.to_string() });
                }
            });
            for k in r.keywords {
                // the keyword itself (must be accepted) and its upper-case form (accepted only where documented)
                for n in [k.to_string(), k.to_uppercase()] {
                    if seen.insert(n.clone()) && fits(&n) {
                        f(&C18Case::Reject { ty: r.ty.to_string(), s: n });
                    }
                }
                for n in neighbourhood(k, &alpha) {
                    if seen.insert(n.clone()) && fits(&n) {
                        f(&C18Case::Reject { ty: r.ty.to_string(), s: n });
                    }
                }
            }
        }
    }
    fn check(&self, c: &C18Case, st: &mut Stats) -> Vec<Viol> {
        st.nontrivial += 1;
        let rs = rows();
        let r = guard(1_000_000, || match c {
            C18Case::Value { ty, i } => {
                let Some(r) = rs.iter().find(|r| r.ty == ty) else { return vec![] };
                if *i >= (r.n_values)() {
                    return vec![];
                }
                let (dbg, text, back) = (r.value)(*i);
                match back {
                    Ok(b) if b == dbg => vec![],
                    Ok(b) => vec![viol("parse-of-print-is-identity", format!("{}: value {} prints {:?} which parses to {}", ty, dbg, text, b))],
                    Err(e) => vec![viol("parse-of-print-is-identity", format!("{}: value {} prints {:?} which does not parse: {}", ty, dbg, text, e))],
                }
            }
            C18Case::Canonical { ty, i } => {
                let Some(r) = rs.iter().find(|r| r.ty == ty) else { return vec![] };
                let Some(s) = r.canonical.get(*i) else { return vec![] };
                match (r.reprint)(s) {
                    Ok(p) if p == *s => vec![],
                    Ok(p) => vec![viol("print-of-parse-is-identity", format!("{}: canonical text {:?} prints back as {:?}", ty, s, p))],
                    Err(e) => vec![viol("print-of-parse-is-identity", format!("{}: canonical text {:?} rejected: {}", ty, s, e))],
                }
            }
            C18Case::Reject { ty, s } => {
                let Some(r) = rs.iter().find(|r| r.ty == ty) else { return vec![] };
                let accepted = (r.reprint)(s).is_ok();
                let expected = accepted_expected(r, s);
                if accepted && !expected {
                    vec![viol("unknown-keyword-rejected", format!("{}: {:?} is not a keyword but parses (to {:?})", ty, s, (r.reprint)(s)))]
                } else if !accepted && expected {
                    vec![viol("keyword-accepted", format!("{}: keyword {:?} rejected", ty, s))]
                } else {
                    vec![]
                }
            }
        });
        match r {
            Ok(vs) => {
                if vs.is_empty() {
                    st.outcome(match c {
                        C18Case::Value { .. } => "value-ok",
                        C18Case::Canonical { .. } => "canonical-ok",
                        C18Case::Reject { ty, s } => {
                            if rs.iter().find(|r| r.ty == ty).map(|r| accepted_expected(r, s)).unwrap_or(false) {
                                "keyword-accepted"
                            } else {
                                "non-keyword-rejected"
                            }
                        }
                    });
                }
                vs
            }
            Err(p) => vec![viol("panic", format!("{:?}: {}", c, panic_detail(&p)))],
        }
    }
    fn shrinks(&self, c: &C18Case) -> Vec<C18Case> {
        match c {
            C18Case::Reject { ty, s } => crate::strings::shrink_string(s).into_iter().map(|s| C18Case::Reject { ty: ty.clone(), s }).collect(),
            _ => vec![],
        }
    }
    fn snippet(&self, c: &C18Case, v: &Viol) -> String {
        format!("// C18 replay: {:?}\n// clause {}: {}\n", c, v.clause, v.detail.replace('\n', "\\n"))
    }
    fn required_outcomes(&self) -> Vec<&'static str> {
        vec!["value-ok", "non-keyword-rejected", "keyword-accepted"]
    }
}
