//! C18 rows: one `TypeRow` per typed field value family.

use crate::props::c18::TypeRow;
use std::str::FromStr;

/// Row for a keyword enumeration whose values are listed exhaustively.
macro_rules! enum_row {
    ($ty:path, $name:literal, [$($variant:expr),+], keywords = [$($kw:literal),+], case_insensitive = $ci:literal) => {{
        fn n() -> usize { [$(stringify!($variant)),+].len() }
        fn value(i: usize) -> (String, String, Result<String, String>) {
            let vals = vec![$($variant),+];
            let v = &vals[i];
            let text = v.to_string();
            let back = <$ty>::from_str(&text).map(|b| format!("{:?}", b)).map_err(|e| format!("{:?}", e));
            (format!("{:?}", v), text, back)
        }
        fn reprint(s: &str) -> Result<String, String> {
            <$ty>::from_str(s).map(|v| v.to_string()).map_err(|e| format!("{:?}", e))
        }
        TypeRow { ty: $name, n_values: n, value, canonical: &[$($kw),+], reprint, keywords: &[$($kw),+], case_insensitive: $ci }
    }};
}

/// Row for a record type: `$values` is an expression building Vec<$ty> (the full product of its menus).
macro_rules! record_row {
    ($ty:path, $name:literal, values = $values:expr, canonical = [$($c:literal),*]) => {{
        fn all() -> Vec<$ty> { $values }
        fn n() -> usize { all().len() }
        fn value(i: usize) -> (String, String, Result<String, String>) {
            let v = &all()[i];
            let text = v.to_string();
            let back = <$ty>::from_str(&text).map(|b| format!("{:?}", b)).map_err(|e| format!("{:?}", e));
            (format!("{:?}", v), text, back)
        }
        fn reprint(s: &str) -> Result<String, String> {
            <$ty>::from_str(s).map(|v| v.to_string()).map_err(|e| format!("{:?}", e))
        }
        TypeRow { ty: $name, n_values: n, value, canonical: &[$($c),*], reprint, keywords: &[], case_insensitive: false }
    }};
}

pub const TOKENS: [&str; 4] = ["a", "0", "x.y_1", "é"];
pub const SIZES: [usize; 4] = [0, 1, 42, usize::MAX];

pub fn rows() -> Vec<TypeRow> {
    use debian_control::fields::*;
    let mut v = vec![];
    v.push(enum_row!(Priority, "fields::Priority",
        [Priority::Required, Priority::Important, Priority::Standard, Priority::Optional, Priority::Extra],
        keywords = ["required", "important", "standard", "optional", "extra"], case_insensitive = false));
    v.push(record_row!(Sha1Checksum, "fields::Sha1Checksum",
        values = {
            let mut out = vec![];
            for h in TOKENS { for s in SIZES { for f in TOKENS {
                out.push(Sha1Checksum { sha1: h.to_string(), size: s, filename: f.to_string() });
            }}}
            out
        },
        canonical = ["da39a3ee 0 empty", "abc 18446744073709551615 x.y_1"]));
    v
}
