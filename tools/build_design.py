#!/usr/bin/env python3
"""Assembles /verif/DESIGN.md from the original design text (kept in tools/design_parts/original.md) and the
as-built parts.  Run: python3 tools/build_design.py"""
import json, os, re, glob, subprocess
ROOT = os.path.dirname(os.path.dirname(os.path.abspath(__file__)))
P = os.path.join(ROOT, 'tools', 'design_parts')
orig = open(os.path.join(P, 'original.md')).read()

def part(name):
    return open(os.path.join(P, name)).read().rstrip('\n') + '\n'

def section(text, start_pat, end_pat):
    a = re.search(start_pat, text, flags=re.M).start()
    b = re.search(end_pat, text[a + 1:], flags=re.M).start() + a + 1
    return a, b

out = orig
# status paragraph
a = out.index('Status: design only')
b = out.index('Contents')
out = out[:a] + part('s0_status.md') + '\n' + out[b:]
# contents list
out = out.replace('3. Per-property designs C01 … C20\n', '3. Per-property designs C01 … C20\n3A. As built: deviations and measured sizes\n')
out = out.replace('4. Defects already visible on the pinned tree, and how they will be handled', '4. What the checks found on the pinned tree, and what was done about it')
out = out.replace('7. Detection demonstrations (planned property-breaking changes)', '7. Detection demonstrations: seeded property-breaking changes and which checks catch them\n7A. Coverage audit of the checks against the statements\n7B. Second audit: routes, environments, printing versus answering, handles\n7C. Third audit: the lessons of eleven rounds applied to every property\n7D. Mechanical mutation campaign')
# replace sub-sections
for name, start, end in [
    ('s21.md', r'^### 2\.1 ', r'^### 2\.2 '),
    ('s22.md', r'^### 2\.2 ', r'^### 2\.3 '),
    ('s26.md', r'^### 2\.6 ', r'^### 2\.7 '),
    ('s27.md', r'^### 2\.7 ', r'^### 2\.8 '),
    ('s28.md', r'^### 2\.8 ', r'^### 2\.9 '),
]:
    a, b = section(out, start, end)
    out = out[:a] + part(name) + '\n' + out[b:]
# 3A before section 4; section 4 replaced
a = re.search(r'^-{20,}\n\n## 4\. ', out, flags=re.M).start()
b = re.search(r'^-{20,}\n\n## 5\. ', out, flags=re.M).start()
fix_rows = subprocess.check_output(['git', '-C', '/repo', 'log', '--reverse', '--format=| `%h` | %s |', '39c99c0..HEAD'], text=True)
fix_rows = ''.join(l.replace('| fix: ', '| ', 1) + '\n' for l in fix_rows.splitlines() if '| fix: ' in l)
sec4 = part('s4_head.md') + fix_rows + part('s4_tail.md')
out = out[:a] + '-' * 93 + '\n\n' + part('s3a.md') + '\n' + '-' * 93 + '\n\n' + sec4 + '\n' + out[b:]
# section 6 and 7
a = re.search(r'^## 6\. Not applicable', out, flags=re.M).start()
out = out[:a] + part('s6.md') + '\n'
# seeded table
rows = []
for d in sorted(glob.glob(os.path.join(ROOT, 'seeded', '*'))):
    try:
        m = json.load(open(os.path.join(d, 'meta.json')))
    except Exception:
        continue
    summ = (m.get('summary') or '').replace('\n', ' ').replace('|', '\\|')
    needs = (m.get('needs') or '').replace('\n', ' ').replace('|', '\\|')
    det = (m.get('detection') or '')
    if m.get('rebased'):
        det += ' [' + m['rebased'] + ']'
    if m.get('retired'):
        det += ' [RETIRED: ' + m['retired'] + ']'
    det = det.replace('\n', ' ').replace('|', '\\|')
    rows.append('| `%s` | %s | %s | %s | %s |' % (os.path.basename(d), m.get('breaks_property', '?'), summ[:400], needs[:300], det))
out += part('s7_head.md') + '\n'.join(rows) + '\n' + part('s7_tail.md')
# mutation campaign summary
mlog = os.path.join(ROOT, 'notes', 'mutation_log.jsonl')
if os.path.exists(mlog):
    recs = [json.loads(l) for l in open(mlog) if l.strip()]
    by = {}
    for r in recs:
        by[r['outcome']] = by.get(r['outcome'], 0) + 1
    catchers = {}
    for r in recs:
        for c in r.get('caught_by', []):
            catchers[c] = catchers.get(c, 0) + 1
    alive = by.get('caught', 0) + by.get('SURVIVED', 0)
    out += '| mutants run | did not compile | killed by the repository suite | passed the suite | of those caught by a check | survived |\n|---|---|---|---|---|---|\n'
    out += '| %d | %d | %d | %d | %d | %d |\n\n' % (len(recs), by.get('no-compile', 0), by.get('killed-by-suite', 0), alive, by.get('caught', 0), by.get('SURVIVED', 0))
    out += 'Checks that caught suite-surviving mutants (a mutant may be caught by several): ' + ', '.join('%s ×%d' % (k, v) for k, v in sorted(catchers.items())) + '.\n\n'
    out += 'Survivors:\n\n'
    for r in recs:
        if r['outcome'] == 'SURVIVED':
            out += '* `%s` — `%s` → `%s`\n' % (r['id'], r['before'].strip()[:90].replace('|', '\\|'), r['after'].strip()[:90].replace('|', '\\|'))
    surv = os.path.join(ROOT, 'notes', 'mutation_survivors.md')
    if os.path.exists(surv):
        out += '\n' + open(surv).read()
open(os.path.join(ROOT, 'DESIGN.md'), 'w').write(out)
print('DESIGN.md written:', len(out), 'bytes,', len(rows), 'seeded changes')
