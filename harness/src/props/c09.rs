//! C09 — lossless relationship-field reader reproduces every input byte-for-byte (DESIGN 3/C09).

use crate::core::*;
use crate::props::c01::StrCase;
use crate::strings::*;
use debian_control::lossless::relations::{Entry, Relation, Relations};
use serde_json::{json, Value};
use std::str::FromStr;

pub const REL_CLASSES: [&str; 21] = [
    "a", ":", "|", ",", "(", ")", "[", "]", "!", "<", ">", "=", "$", "{", "}", " ", "\t", "\r", "\n", "@", "é",
];
pub const REL_TOKENS: [&str; 20] = [
    "lib-a", "1.0~rc1", ">=", "<<", "(", ")", "[", "]", "!", "<", ">", ",", "|", ":", "${", "}", " ", "\n ", "=", "$",
];

pub fn rel_space(tier: Tier) -> MultiSpace {
    MultiSpace {
        spaces: vec![
            (SeqSpace::new(&REL_CLASSES, tier.pick(5, 6), 2), false),
            (SeqSpace::new(&REL_TOKENS, tier.pick(4, 6), 2), false),
        ],
    }
}

pub struct C09;

impl Prop for C09 {
    type Case = StrCase;
    fn id(&self) -> &'static str {
        "C09"
    }
    fn level(&self) -> &'static str {
        "model_checking"
    }
    fn rule(&self, _t: Tier) -> String {
        "every string over the 21-symbol relation character-class alphabet up to the length bound, and every sequence of 20 multi-character relation tokens up to the token bound (full input tries; states = strings), plus 12 fields per length with one token (name, blank run, version, list item, qualifier, substvar, line breaks, commas, non-ASCII run) stretched to 255 / 256 / 257 / 65535 / 65536 / 65537 characters, and every ASCII character (NUL and the control characters included) plus 14 non-ASCII ones between 22 prefixes and 8 suffixes that put it into every lexical context; each is parsed by parse_relaxed(_, false), parse_relaxed(_, true), Relations::from_str, Entry::from_str and Relation::from_str; every ordered pair of the three field readers is also run back to back on the same text and compared with the answers obtained in isolation (history independence); non-trivial = distinct string of the character space with >= 2 characters".into()
    }
    fn bounds(&self, t: Tier) -> Value {
        json!({"spaces": rel_space(t).describe()})
    }
    fn assumptions(&self) -> Vec<String> {
        vec![
            "identifier characters other than 'a' and non-ASCII/other characters other than '@'/'é' behave like their class (the lexer decides on the class of the next character only)".into(),
            "strings longer than the bound reach no parser control state that shorter ones do not (finite control, one token of look-ahead past whitespace)".into(),
        ]
    }
    fn n_shards(&self, t: Tier) -> usize {
        rel_space(t).n_shards() + 1
    }
    fn explore(&self, t: Tier, shard: usize, f: &mut dyn FnMut(&StrCase) -> Verdict) {
        let ms = rel_space(t);
        if shard == ms.n_shards() {
            // one token of every kind stretched to the limits of the narrow integer types
            for n in crate::props::c01::WIDTH_LIMITS {
                let (a, sp, d) = ("a".repeat(n), " ".repeat(n), "1".repeat(n));
                for s in [
                    format!("{}, b", a),
                    format!("b, {}", a),
                    format!("a{}, b", sp),
                    format!("a,{}b", sp),
                    format!("a (>= {}), b", d),
                    format!("a (>={}1), b", sp),
                    format!("a [{}] <{}>, b", a, a),
                    format!("a | {}:any, b", a),
                    format!("${{{}}}, b", a),
                    format!("a,{}b", "\n".repeat(n)),
                    format!("{} b", "\u{e9}".repeat(n)),
                    format!("a{}", ",".repeat(n)),
                ] {
                    f(&StrCase { s, fresh: false });
                }
            }
            // every ASCII character (NUL, DEL and the control characters included) and the sample of non-ASCII ones, in
            // every lexical context of a relationship field (the class alphabet has ONE representative per class)
            const PRE: [&str; 22] = ["", "a", "a ", "a (", "a (>= ", "a (>= 1", "a [", "a [x ", "a <", "a <!", "${", "${a", "a, ", "a | ", "a:",
                // ... and after a COMPLETED construct, where the parser expects '[', '<', ',' or '|'
                "a (>= 1) ", "a [x] ", "a <x> ", "a <x> <", "a:any ", "a (>=", "a |"];
            const SUF: [&str; 8] = ["", "b", " b", ")", "]", ">", "}", ", b"];
            for c in crate::props::c01::w_chars() {
                for p in PRE {
                    for sfx in SUF {
                        f(&StrCase { s: format!("{}{}{}", p, c, sfx), fresh: false });
                    }
                }
            }
            return;
        }
        let mut case = StrCase { s: String::new(), fresh: false };
        ms.explore(shard, &mut |s, space, _len, _| {
            case.s.clear();
            case.s.push_str(s);
            case.fresh = space == 0;
            f(&case);
        });
    }
    fn check(&self, c: &StrCase, st: &mut Stats) -> Vec<Viol> {
        let s = c.s.as_str();
        let mut out = vec![];
        let mut ok_any = false;
        for allow in [false, true] {
            let r = guard(budget_for(s.len()), || {
                let mut out: Vec<Viol> = vec![];
                let (r, errs) = Relations::parse_relaxed(s, allow);
                let printed = r.to_string();
                if printed != s {
                    out.push(viol(
                        if allow { "relaxed-roundtrip-substvars" } else { "relaxed-roundtrip" },
                        format!("printed {}", crate::strings::brief(&printed)),
                    ));
                }
                (out, errs.is_empty())
            });
            st.max_ticks = st.max_ticks.max(deb822_lossless::verif::ticks());
            match r {
                Ok((vs, ok)) => {
                    out.extend(vs);
                    if !allow {
                        ok_any = ok;
                    }
                }
                Err(p) => {
                    let clause = if is_budget(&p) { "hang" } else { "panic" };
                    out.push(viol(clause, format!("parse_relaxed(_, {}): {}", allow, panic_detail(&p))));
                }
            }
        }
        let r = guard(budget_for(s.len()) * 4, || {
            let mut out: Vec<Viol> = vec![];
            let strict = Relations::from_str(s);
            if strict.is_ok() != ok_any {
                out.push(viol("strict-iff-no-errors", format!("strict ok={} relaxed clean={}", strict.is_ok(), ok_any)));
            }
            if let Ok(r) = &strict {
                if r.to_string() != s {
                    out.push(viol("strict-roundtrip", format!("printed {}", crate::strings::brief(&r.to_string()))));
                }
            }
            // what the field reader sees as the first entry / first relation of s
            let first_entry = strict.as_ref().ok().and_then(|r| r.entries().next());
            if let Ok(e) = Entry::from_str(s) {
                let p = e.to_string();
                if !s.contains(&p) || strict.is_err() {
                    out.push(viol("entry-reader", format!("printed {} strict ok={}", crate::strings::brief(&p), strict.is_ok())));
                } else if first_entry.as_ref().map(|x| x.to_string()) != Some(p.clone()) {
                    out.push(viol("entry-reader", format!("printed {:?}, but the first entry of the field is {:?}", p, first_entry.as_ref().map(|x| x.to_string()))));
                }
            }
            if let Ok(e) = Relation::from_str(s) {
                let p = e.to_string();
                let first_rel = first_entry.as_ref().and_then(|x| x.relations().next()).map(|x| x.to_string());
                if !s.contains(&p) || strict.is_err() {
                    out.push(viol("relation-reader", format!("printed {} strict ok={}", crate::strings::brief(&p), strict.is_ok())));
                } else if first_rel != Some(p.clone()) {
                    out.push(viol("relation-reader", format!("printed {:?}, but the first relation of the field is {:?}", p, first_rel)));
                }
            }
            out
        });
        match r {
            Ok(vs) => out.extend(vs),
            Err(p) => {
                let clause = if is_budget(&p) { "hang" } else { "panic" };
                out.push(viol(clause, format!("strict readers: {}", panic_detail(&p))));
            }
        }
        // a reader's answer does not depend on what was read before it (same text under the other setting, the strict reader
        // before or after the tolerant one): compare every consecutive pair with the answers obtained in isolation
        // (all strings of up to four symbols, and every longer one that holds a '$': the settings differ on substvars only)
        let history = s.chars().count() <= 4 || s.contains('$');
        let r = guard(budget_for(s.len()) * 12, || {
            let mut out: Vec<Viol> = vec![];
            if !history {
                return out;
            }
            let flush = || {
                let _ = Relations::parse_relaxed("flush-a", false);
                let _ = Relations::parse_relaxed("flush-b", true);
            };
            let relaxed = |allow: bool| -> (String, Vec<String>) {
                let (r, e) = Relations::parse_relaxed(s, allow);
                (r.to_string(), e)
            };
            let strict = || Relations::from_str(s).map(|r| r.to_string()).map_err(|_| ());
            flush();
            let iso_false = relaxed(false);
            flush();
            let iso_true = relaxed(true);
            flush();
            let iso_strict = strict();
            for first in 0..3 {
                for second in 0..3 {
                    if first == second {
                        continue;
                    }
                    flush();
                    match first {
                        0 => drop(relaxed(false)),
                        1 => drop(relaxed(true)),
                        _ => drop(strict()),
                    }
                    let same = match second {
                        0 => relaxed(false) == iso_false,
                        1 => relaxed(true) == iso_true,
                        _ => strict() == iso_strict,
                    };
                    if !same {
                        let names = ["parse_relaxed(_, false)", "parse_relaxed(_, true)", "Relations::from_str"];
                        out.push(viol("history-independent", format!("{} answers differently directly after {} on the same text than in isolation", names[second], names[first])));
                    }
                }
            }
            out
        });
        match r {
            Ok(vs) => out.extend(vs),
            Err(p) => out.push(viol(if is_budget(&p) { "hang" } else { "panic" }, format!("history clause: {}", panic_detail(&p)))),
        }
        if c.fresh && s.chars().count() >= 2 {
            st.nontrivial += 1;
        }
        if out.iter().any(|v| v.clause == "hang" || v.clause == "panic") {
            st.outcome_with("crash-or-hang", c);
        } else if ok_any {
            st.outcome_with("accepted", c);
        } else {
            st.outcome_with("rejected-with-errors", c);
        }
        out
    }
    fn shrinks(&self, c: &StrCase) -> Vec<StrCase> {
        shrink_string(&c.s).into_iter().map(|s| StrCase { s, fresh: false }).collect()
    }
    fn snippet(&self, c: &StrCase, v: &Viol) -> String {
        format!(
            "#[test]\nfn c09_replay() {{\n    use debian_control::lossless::relations::Relations;\n    let s = {:?};\n    for allow in [false, true] {{\n        let (r, _errs) = Relations::parse_relaxed(s, allow);\n        assert_eq!(r.to_string(), s);\n    }}\n    // violated clause: {} ({})\n}}\n",
            c.s, v.clause, v.detail.replace('\n', "\\n")
        )
    }
    fn required_outcomes(&self) -> Vec<&'static str> {
        vec!["accepted", "rejected-with-errors"]
    }
    fn extra_evidence(&self, tier: Tier, m: &Stats) -> Value {
        let n = tier.pick(5, 6) - 2;
        deb822_lossless::verif::reset_coverage();
        let sp = SeqSpace::new(&REL_CLASSES, n, 0);
        sp.explore(0, &mut |s, _| {
            for allow in [false, true] {
                let _ = guard(budget_for(s.len()), || {
                    let _ = Relations::parse_relaxed(s, allow);
                });
            }
        });
        let small: u64 = deb822_lossless::verif::coverage().iter().map(|c| c.count_ones() as u64).sum();
        let full: u64 = m.coverage.iter().map(|c| c.count_ones() as u64).sum();
        json!({"abstract_coverage": {"parser_pairs_whole_run": full, "parser_pairs_class_strings_two_shorter": small, "length_two_shorter": n, "saturated": small == full}})
    }
}
