#!/bin/sh
# run the repository's own suite (hooks off) and print only failures + a summary count
cd /repo && cargo test --workspace --no-fail-fast --offline 2>&1 | awk '/^test result/ {p+=$4; f+=$6} /FAILED|panicked|^error/ {print} END {print "passed=" p " failed=" f}'
