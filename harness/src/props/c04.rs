//! C04 — field edits act like list edits, touch nothing else, survive a re-read.
//! C05 — paragraph add/insert/remove behave like list operations.
//! Both: breadth-first exploration of edit histories on live objects (DESIGN 2.5).

use crate::core::*;
use crate::props::edit::*;
use serde_json::{json, Value};
use std::collections::HashSet;
use std::str::FromStr;

fn s(x: &str) -> String {
    x.to_string()
}
fn pm(v: &[(&str, &str)]) -> PModel {
    v.iter().map(|(k, v)| (s(k), s(v))).collect()
}

pub fn c04_inits() -> Vec<Init> {
    let mut v: Vec<Init> = [
        "A: 1\n",
        "A: 1\nB: 2\n",
        "A: 1\nB: 2\nC: 3\n",
        "A: 1\nB: 2\nA: 3\n",
        "A: 1\nA: 2\n",
        "# c\nA: 1\n# d\nB: 2\n# e\n",
        "B: 1\n# c\nA: 2\n",
        "A: 1\n x\n y\nB: 2\n",
        "A:\n 1\n 2\nB:  2\n",
        "A:\t1\nB:2\n",
        "A: 1",
        "A: 1\nB: 2",
        "A: 1\n x",
        "A: 1\n# c",
        "A: 1\n\nB: 2\n",
        "A: 1\nB: 2\n\nA: 3\nC: 4\n",
        "# l\n\nA: 1\n\n# m\n\nB: 2\n\n# t\n",
        "\n\nA: 1\n\n\nB: 2\n\n",
        "A: 1\n\nB: 2",
        "A: 1\n\n# t",
    ]
    .iter()
    .map(|t| Init::Text(s(t)))
    .collect();
    v.push(Init::BuiltStr(vec![pm(&[("A", "1"), ("B", "2")])]));
    v.push(Init::BuiltString(vec![pm(&[("A", "1")]), pm(&[("C", "3")])]));
    v.push(Init::BuiltStr(vec![pm(&[])]));
    v.push(Init::BuiltStr(vec![pm(&[("A", "1\n2")])]));
    v.push(Init::Standalone(pm(&[("A", "1")])));
    v.push(Init::Standalone(pm(&[])));
    for t in ["A: 1\nB: 2\n", "# c\nA: 1\n x\n# d\nB:  2\n\n\nC: 3", "A:\n 1\n 2\nB: 2\n# e\n"] {
        v.push(Init::Reformatted(s(t)));
    }
    v.push(Init::ParaFromStr(s("A: 1\nB: 2\n")));
    v.push(Init::ParaFromStr(s("A: 1\n\nB: 2")));
    v
}

pub fn c05_inits() -> Vec<Init> {
    [
        "",
        "A: 1\n",
        "A: 1\n\nB: 2\n",
        "A: 1\n\nB: 2\n\nC: 3\n",
        "# l\nA: 1\n",
        "# l\n\nA: 1\n\nB: 2\n",
        "A: 1\n\n# m\n\nB: 2\n",
        "A: 1\n# m\n\nB: 2\n",
        "A: 1\n\n# m\nB: 2\n",
        "A: 1\n\nB: 2\n\n# t\n",
        "A: 1\n\nB: 2\n# t\n",
        "A: 1\n\n\nB: 2\n",
        "A: 1\n\n\n\nB: 2\n\n\nC: 3\n",
        "A: 1\n\nB: 2\n\n\n",
        "\n\nA: 1\n",
        "A: 1",
        "A: 1\n\nB: 2",
        "A: 1\n x",
        "A: 1\n\n# t",
        "A: 1\n\nB:",
        "A: 1\n\nB: 2\n# r",
        "# only a comment\n",
        "\n",
        // paragraphs with identical text: only the handles can tell them apart
        "A: 1\n\nA: 1\n",
        "A: 1\n\nB: 2\n\nA: 1\n",
    ]
    .iter()
    .map(|t| Init::Text(s(t)))
    .chain([
        Init::Collected(s("A: 1\n\nB: 2\n"), false),
        Init::Collected(s("A: 1\n\nB: 2"), true),
        Init::Collected(s("# l\nA: 1\n x\n# e\n\n\nB: 2\n\nC:"), true),
        Init::Reformatted(s("A: 1\n\n\n# m\nB: 2\n x\n\nC: 3")),
        Init::Reformatted(s("# l\n\nA: 1\n# t")),
        Init::New,
        Init::BuiltStr(vec![]),
        Init::BuiltStr(vec![pm(&[("A", "1")]), pm(&[("B", "2")])]),
        Init::BuiltString(vec![pm(&[("A", "1")]), pm(&[]), pm(&[("B", "2")])]),
    ])
    .collect()
}

/// (the fourth is the first in another letter case: to the model simply another name)
const KEYS: [&str; 4] = ["A", "B", "C", "a"];
/// thorough: one more key with every punctuation class a field name may contain
const KEYS_T: [&str; 4] = ["A", "B", "a", "X-y#1"];

/// Initial documents from the document generator: every layout with at most one deviation (thorough: two on the smaller
/// skeleton) - comments of every shape, colon spacing, continuation lines, indentation, separators, missing final newline.
pub fn layout_inits(which: Which, t: Tier) -> Vec<Init> {
    use crate::docgen::{menus, render, Skel};
    use crate::kdev::kdev_shard;
    let plans: Vec<(Skel, usize)> = match (which, t) {
        (Which::C04, Tier::Quick) => vec![(Skel { paras: 2, fields: 2 }, 1)],
        (Which::C04, Tier::Thorough) => vec![(Skel { paras: 2, fields: 2 }, 1), (Skel { paras: 1, fields: 2 }, 2)],
        (Which::C05, Tier::Quick) => vec![(Skel { paras: 2, fields: 1 }, 1), (Skel { paras: 3, fields: 1 }, 1)],
        (Which::C05, Tier::Thorough) => vec![(Skel { paras: 2, fields: 2 }, 1), (Skel { paras: 3, fields: 1 }, 1), (Skel { paras: 2, fields: 1 }, 2)],
    };
    let mut out = vec![];
    let mut seen = HashSet::new();
    for (sk, k) in plans {
        let m = menus(sk);
        let mut emit = |v: &[usize]| {
            // the final newline is a free dimension (not counted as a deviation): many end-of-document defects need
            // "no final newline" together with one other feature
            let mut w = v.to_vec();
            let last = w.len() - 1;
            for fin in 0..2 {
                w[last] = fin;
                if let Some(d) = render(sk, &w) {
                    if deb822_lossless::Deb822::from_str(&d.text).is_ok() && seen.insert(d.text.clone()) {
                        out.push(Init::Text(d.text));
                    }
                }
            }
        };
        kdev_shard(&m, k, None, &mut emit);
        for first in 0..m.len() {
            kdev_shard(&m, k, Some(first), &mut emit);
        }
    }
    out
}

fn field_ops(n_paras: usize, vals: &[&str], keys: &[&str]) -> Vec<Op> {
    let mut ops = vec![];
    for p in 0..n_paras {
        for k in keys {
            for v in vals {
                ops.push(Op::Set(p, s(k), s(v)));
            }
        }
        for k in keys {
            for v in vals {
                ops.push(Op::Insert(p, s(k), s(v)));
            }
        }
        for k in keys {
            ops.push(Op::Remove(p, s(k)));
        }
        for k in keys {
            for k2 in keys {
                if k != k2 || *k == keys[0] {
                    ops.push(Op::Rename(p, s(k), s(k2)));
                }
            }
        }
    }
    ops
}

fn para_ops(n_paras: usize) -> Vec<Op> {
    let mut ops = vec![Op::AddPara, Op::AddParaSet(s("N"), s("n"))];
    for i in 0..=n_paras + 1 {
        ops.push(Op::InsertPara(i));
        ops.push(Op::InsertParaSet(i, s("N"), s("n")));
    }
    for i in 0..=n_paras {
        ops.push(Op::RemovePara(i));
    }
    for p in 0..n_paras {
        ops.push(Op::Set(p, s("A"), s("x")));
        ops.push(Op::Set(p, s("B"), s("x\ny")));
        ops.push(Op::Remove(p, s("A")));
        ops.push(Op::Insert(p, s("C"), s("z")));
        ops.push(Op::Rename(p, s("A"), s("C")));
    }
    ops
}

fn n_paras_after(init: &Init, ops: &[Op]) -> usize {
    let mut m = match Live::build(init) {
        Some((_, m)) => m,
        None => return 0,
    };
    for op in ops {
        model_apply(&mut m, op);
    }
    m.len()
}

#[derive(Clone, Copy, PartialEq)]
pub enum Which {
    C04,
    C05,
}

pub struct EditProp(pub Which, pub std::sync::atomic::AtomicU64, pub std::sync::atomic::AtomicU64);

struct Plan {
    inits: Vec<Init>,
    /// inits[n_deep..] are the generated layouts, explored to `depth_layout` with the cache only
    n_deep: usize,
    depth_layout: usize,
    /// (init index, early handles, nocache)
    shards: Vec<(usize, bool, bool)>,
    depth_cached: usize,
    depth_nocache: usize,
    max_states: usize,
}

impl EditProp {
    fn plan(&self, t: Tier) -> Plan {
        let mut inits = match self.0 {
            Which::C04 => c04_inits(),
            Which::C05 => c05_inits(),
        };
        let mut shards = vec![];
        for i in 0..inits.len() {
            shards.push((i, false, false));
            shards.push((i, false, true));
            shards.push((i, true, false));
            if self.0 == Which::C04 {
                shards.push((i, true, true));
            }
        }
        let n_deep = inits.len();
        inits.extend(layout_inits(self.0, t));
        for i in n_deep..inits.len() {
            shards.push((i, false, false));
            if self.0 == Which::C04 {
                shards.push((i, true, false));
            }
        }
        let (depth_cached, depth_nocache) = match (self.0, t) {
            (Which::C04, Tier::Quick) => (3, 2),
            (Which::C04, Tier::Thorough) => (4, 2),
            (Which::C05, Tier::Quick) => (3, 2),
            (Which::C05, Tier::Thorough) => (5, 3),
        };
        Plan { inits, n_deep, depth_layout: t.pick(1, 2), shards, depth_cached, depth_nocache, max_states: t.pick(200_000, 3_000_000) }
    }
    fn ops_for(&self, t: Tier, init: &Init, hist: &[Op]) -> Vec<Op> {
        let n = n_paras_after(init, hist);
        match self.0 {
            Which::C04 => {
                let vals: &[&str] = match t {
                    Tier::Quick => &["x", "x\ny", ":c\nd\n\u{e9}z", "#h  "],
                    Tier::Thorough => &["x", "x\n\u{1f600} w\nz", "é  ", ":c\nd\n\u{e9}z", "#h\ny"],
                };
                field_ops(n, vals, match t {
                    Tier::Quick => &KEYS[..],
                    Tier::Thorough => &KEYS_T[..],
                })
            }
            Which::C05 => para_ops(n),
        }
    }
}

impl Prop for EditProp {
    type Case = EditCase;
    fn id(&self) -> &'static str {
        match self.0 {
            Which::C04 => "C04",
            Which::C05 => "C05",
        }
    }
    fn level(&self) -> &'static str {
        "model_checking"
    }
    fn rule(&self, _t: Tier) -> String {
        "breadth-first search over operation histories applied to live objects: a state is the history reaching it, re-reached by replay on a fresh object; after every transition the live object is compared with the list model, the text before/after with the locality oracle, the printed text is re-read, and kept handles are queried; state cache key = complete syntax-tree walk + handle flags + model; an additional pass enumerates all histories without the cache to a smaller depth (cache cross-check); non-trivial = distinct cached state at depth >= 1".into()
    }
    fn bounds(&self, t: Tier) -> Value {
        let p = self.plan(t);
        json!({"initial_states": p.inits[..p.n_deep].to_vec(), "generated_layout_initial_states": p.inits.len() - p.n_deep, "depth_layouts": p.depth_layout, "depth_cached": p.depth_cached, "depth_nocache": p.depth_nocache, "max_states_per_initial": p.max_states,
               "ops_example": self.ops_for(t, &p.inits[1], &[]).len()})
    }
    fn assumptions(&self) -> Vec<String> {
        vec![
            "two histories reaching the same (syntax tree, handle flags, model) have the same futures; cross-checked by the no-cache pass".into(),
            "paragraphs without fields print nothing; re-read comparisons drop them on both sides".into(),
            "locality is judged with an independent line scanner for well-formed documents; when the scanner and the model disagree on the shape of the text before the operation, locality is not judged for that step (list model, re-read and handle checks still are)".into(),
        ]
    }
    fn n_shards(&self, t: Tier) -> usize {
        self.plan(t).shards.len()
    }
    fn explore(&self, t: Tier, shard: usize, f: &mut dyn FnMut(&EditCase) -> Verdict) {
        let plan = self.plan(t);
        let (ii, early, nocache) = plan.shards[shard];
        let init = plan.inits[ii].clone();
        if Live::build(&init).is_none() {
            return;
        }
        let depth = if ii >= plan.n_deep {
            plan.depth_layout
        } else if nocache {
            plan.depth_nocache
        } else {
            plan.depth_cached
        };
        let mut seen: HashSet<String> = HashSet::new();
        let root = EditCase { init: init.clone(), early, ops: vec![], nocache };
        let v = f(&root);
        if let Some(k) = v.key {
            seen.insert(k);
        }
        let mut frontier: Vec<Vec<Op>> = vec![vec![]];
        for _d in 0..depth {
            let mut next = vec![];
            for hist in &frontier {
                for op in self.ops_for(t, &init, hist) {
                    let mut ops = hist.clone();
                    ops.push(op);
                    let case = EditCase { init: init.clone(), early, ops, nocache };
                    let v = f(&case);
                    if v.violated {
                        continue; // prune below violating states
                    }
                    if nocache {
                        next.push(case.ops);
                    } else if let Some(k) = v.key {
                        if seen.len() >= plan.max_states {
                            // the per-start state budget is exhausted: the run is reported as not exhaustive
                            if !seen.contains(&k) {
                                self.2.fetch_add(1, std::sync::atomic::Ordering::Relaxed);
                            }
                        } else if seen.insert(k) {
                            self.1.fetch_add(1, std::sync::atomic::Ordering::Relaxed);
                            next.push(case.ops);
                        }
                    }
                }
            }
            frontier = next;
        }
    }
    fn check(&self, c: &EditCase, st: &mut Stats) -> Vec<Viol> {
        st.transitions += 1;
        let vs = check_edit(c, st, self.id());
        vs
    }
    fn cap_hits(&self) -> u64 {
        self.2.load(std::sync::atomic::Ordering::Relaxed)
    }
    fn shrinks(&self, c: &EditCase) -> Vec<EditCase> {
        let mut out = vec![];
        // drop one operation
        for i in 0..c.ops.len() {
            let mut ops = c.ops.clone();
            ops.remove(i);
            out.push(EditCase { ops, ..c.clone() });
        }
        // fresh handles instead of early ones
        if c.early {
            out.push(EditCase { early: false, ..c.clone() });
        }
        // simpler initial states of the same family
        let inits = match self.0 {
            Which::C04 => c04_inits(),
            Which::C05 => c05_inits(),
        };
        let cur = inits.iter().position(|i| *i == c.init).unwrap_or(inits.len());
        for i in inits.iter().take(cur) {
            out.push(EditCase { init: i.clone(), ..c.clone() });
        }
        // simpler arguments
        for (i, op) in c.ops.iter().enumerate() {
            let simpler = match op {
                Op::Set(p, k, v) if v != "x" => Some(Op::Set(*p, k.clone(), s("x"))),
                Op::Insert(p, k, v) if v != "x" => Some(Op::Insert(*p, k.clone(), s("x"))),
                Op::AddParaSet(..) => Some(Op::AddPara),
                Op::InsertParaSet(i, ..) => Some(Op::InsertPara(*i)),
                _ => None,
            };
            if let Some(sop) = simpler {
                let mut ops = c.ops.clone();
                ops[i] = sop;
                out.push(EditCase { ops, ..c.clone() });
            }
        }
        for o in out.iter_mut() {
            o.nocache = false;
        }
        out
    }
    fn snippet(&self, c: &EditCase, v: &Viol) -> String {
        format!(
            "// {} replay: build the initial object, apply the operations in order, then compare with a Vec model,\n// print the document and re-read it.\n// init  = {}\n// early handles = {}\n// ops   = {}\n// violated clause {}: {}\n",
            self.id(),
            serde_json::to_string(&c.init).unwrap(),
            c.early,
            serde_json::to_string(&c.ops).unwrap(),
            v.clause,
            v.detail.replace('\n', "\\n")
        )
    }
    fn states_from(&self, m: &Stats) -> Option<(u64, u64)> {
        Some((self.1.load(std::sync::atomic::Ordering::Relaxed).max(1), m.transitions.max(1)))
    }
    fn distinct_override(&self) -> Option<u64> {
        Some(self.1.load(std::sync::atomic::Ordering::Relaxed))
    }
    fn required_outcomes(&self) -> Vec<&'static str> {
        vec!["ok"]
    }
}

pub fn fnv64(s: &str) -> u64 {
    let mut h = 0xcbf29ce484222325u64;
    for b in s.bytes() {
        h ^= b as u64;
        h = h.wrapping_mul(0x100000001b3);
    }
    h
}
