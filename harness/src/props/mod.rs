pub mod c01;
pub mod c03;
pub mod c04;
pub mod edit;
pub mod c06;
pub mod c07;
pub mod c09;
pub mod c10;
