//! C02 — every text-parsing entry point is total: no panic, no hang, on any input (DESIGN 3/C02).

use crate::core::*;
use crate::kdev::*;
use crate::props::c01::{DEB822_CLASSES, DEB822_LINES};
use crate::props::c09::{REL_CLASSES, REL_TOKENS};
use crate::strings::*;
use crate::typed::*;
use serde::{Deserialize, Serialize};
use serde_json::{json, Value};
use std::io::Cursor;
use std::str::FromStr;
use std::time::Instant;

/// the last three are characters with irregular case mappings (an upper-case letter without a lower-case form, one that
/// lower-cases to two characters, one that upper-cases to two): keyword parsers fold case
pub const CODEC_CLASSES: [&str; 21] = ["a", "0", "9", "-", "=", " ", "\t", "\n", "<", ">", "@", "[", "]", "é", "\u{1d400}", "\u{130}", "ß", "\r", "\u{a0}", ",", ":"];

#[derive(Clone, Copy, PartialEq, Debug)]
pub enum Group {
    /// deb822-based document readers
    Doc,
    /// relationship field readers
    Rel,
    /// single-value codecs
    Codec,
}

pub struct EntryPoint {
    pub name: &'static str,
    pub group: Group,
    pub call: fn(&str),
    /// ids of the typed paragraph tables a document of this type is made of (in order), for the typed-document tier
    pub paragraphs: &'static [&'static str],
}

macro_rules! ep {
    ($name:literal, $group:expr, $paras:expr, |$s:ident| $body:expr) => {{
        fn call($s: &str) {
            let _ = $body;
        }
        EntryPoint { name: $name, group: $group, call, paragraphs: $paras }
    }};
}

/// Hand the text to a reader that takes a path: one scratch file per worker thread (in /dev/shm when there is one),
/// removed when the thread ends.
pub fn with_file<R>(s: &str, f: impl FnOnce(&std::path::Path) -> R) -> R {
    struct Scratch(std::path::PathBuf);
    impl Drop for Scratch {
        fn drop(&mut self) {
            let _ = std::fs::remove_file(&self.0);
        }
    }
    thread_local! {
        static PATH: Scratch = {
            let dir = if std::path::Path::new("/dev/shm").is_dir() { std::path::PathBuf::from("/dev/shm") } else { std::env::temp_dir() };
            Scratch(dir.join(format!("verif-c02-{}-{:?}", std::process::id(), std::thread::current().id())))
        };
    }
    PATH.with(|p| {
        std::fs::write(&p.0, s.as_bytes()).expect("scratch file");
        f(&p.0)
    })
}

pub fn entry_points() -> Vec<EntryPoint> {
    use Group::*;
    let mut v = vec![];
    // deb822-lossless
    v.push(ep!("deb822_lossless::Deb822::from_str", Doc, &[], |s| deb822_lossless::Deb822::from_str(s).map(|d| d.to_string())));
    v.push(ep!("deb822_lossless::Paragraph::from_str", Doc, &[], |s| deb822_lossless::Paragraph::from_str(s).map(|d| d.to_string())));
    v.push(ep!("deb822_lossless::Deb822::from_str_relaxed", Doc, &[], |s| deb822_lossless::Deb822::from_str_relaxed(s).0.to_string()));
    v.push(ep!("deb822_lossless::Deb822::read", Doc, &[], |s| deb822_lossless::Deb822::read(Cursor::new(s.as_bytes())).is_ok()));
    v.push(ep!("deb822_lossless::lossy::Deb822::from_str", Doc, &[], |s| deb822_lossless::lossy::Deb822::from_str(s).map(|d| d.to_string())));
    v.push(ep!("deb822_lossless::lossy::Paragraph::from_str", Doc, &[], |s| deb822_lossless::lossy::Paragraph::from_str(s).map(|d| d.to_string())));
    v.push(ep!("deb822_lossless::lossy::Deb822::from_reader", Doc, &[], |s| deb822_lossless::lossy::Deb822::from_reader(Cursor::new(s.as_bytes())).is_ok()));
    v.push(ep!("deb822_lossless::Deb822::read_relaxed", Doc, &[], |s| deb822_lossless::Deb822::read_relaxed(Cursor::new(s.as_bytes())).is_ok()));
    v.push(ep!("deb822_lossless::Deb822::from_file", Doc, &[], |s| with_file(s, |p| deb822_lossless::Deb822::from_file(p).is_ok())));
    v.push(ep!("deb822_lossless::Deb822::from_file_relaxed", Doc, &[], |s| with_file(s, |p| deb822_lossless::Deb822::from_file_relaxed(p).is_ok())));
    // the Read-based entry points fed one byte per read call, and by a reader that fails half-way (short reads and
    // injected errors are answers of the environment, not of the text)
    v.push(ep!("deb822_lossless::Deb822::read (1-byte reads)", Doc, &[], |s| deb822_lossless::Deb822::read(ChunkReader::new(s.as_bytes(), 1)).is_ok()));
    v.push(ep!("deb822_lossless::Deb822::read_relaxed (1-byte reads)", Doc, &[], |s| deb822_lossless::Deb822::read_relaxed(ChunkReader::new(s.as_bytes(), 1)).is_ok()));
    v.push(ep!("deb822_lossless::Deb822::read_relaxed (reader failing half-way)", Doc, &[], |s| deb822_lossless::Deb822::read_relaxed(ChunkReader::failing(s.as_bytes(), 3, s.len() / 2)).is_ok()));
    v.push(ep!("deb822_lossless::lossy::Deb822::from_reader (1-byte reads)", Doc, &[], |s| deb822_lossless::lossy::Deb822::from_reader(ChunkReader::new(s.as_bytes(), 1)).is_ok()));
    v.push(ep!("deb822_lossless::lossy::Deb822::from_reader (reader failing half-way)", Doc, &[], |s| deb822_lossless::lossy::Deb822::from_reader(ChunkReader::failing(s.as_bytes(), 3, s.len() / 2)).is_ok()));
    v.push(ep!("lossless::Control::read_relaxed (1-byte reads)", Doc, &[], |s| debian_control::lossless::control::Control::read_relaxed(ChunkReader::new(s.as_bytes(), 1)).is_ok()));
    v.push(ep!("lossless::changes::Changes::read (1-byte reads)", Doc, &[], |s| debian_control::lossless::changes::Changes::read(ChunkReader::new(s.as_bytes(), 1)).is_ok()));
    v.push(ep!("lossless::changes::Changes::read_relaxed (reader failing half-way)", Doc, &[], |s| debian_control::lossless::changes::Changes::read_relaxed(ChunkReader::failing(s.as_bytes(), 3, s.len() / 2)).is_ok()));
    // relations
    v.push(ep!("relations::Lexer (public token iterator)", Rel, &[], |s| debian_control::relations::Lexer::new(s).count()));
    v.push(ep!("serde: lossless::relations::Relations", Rel, &[], |s| serde_json::from_value::<debian_control::lossless::relations::Relations>(Value::String(s.to_string())).map(|r| r.to_string())));
    v.push(ep!("serde: lossless::relations::Entry", Rel, &[], |s| serde_json::from_value::<debian_control::lossless::relations::Entry>(Value::String(s.to_string())).map(|r| r.to_string())));
    v.push(ep!("serde: lossless::relations::Relation", Rel, &[], |s| serde_json::from_value::<debian_control::lossless::relations::Relation>(Value::String(s.to_string())).map(|r| r.to_string())));
    v.push(ep!("serde: lossy::Relations", Rel, &[], |s| serde_json::from_value::<debian_control::lossy::Relations>(Value::String(s.to_string())).map(|r| r.to_string())));
    v.push(ep!("serde: lossy::Relation", Rel, &[], |s| serde_json::from_value::<debian_control::lossy::Relation>(Value::String(s.to_string())).map(|r| r.to_string())));
    v.push(ep!("lossless::relations::Relations::from_str", Rel, &[], |s| debian_control::lossless::relations::Relations::from_str(s).map(|r| r.to_string())));
    v.push(ep!("lossless::relations::Relations::parse_relaxed(_, false)", Rel, &[], |s| debian_control::lossless::relations::Relations::parse_relaxed(s, false).0.to_string()));
    v.push(ep!("lossless::relations::Relations::parse_relaxed(_, true)", Rel, &[], |s| debian_control::lossless::relations::Relations::parse_relaxed(s, true).0.to_string()));
    v.push(ep!("lossless::relations::Entry::from_str", Rel, &[], |s| debian_control::lossless::relations::Entry::from_str(s).map(|r| r.to_string())));
    v.push(ep!("lossless::relations::Relation::from_str", Rel, &[], |s| debian_control::lossless::relations::Relation::from_str(s).map(|r| r.to_string())));
    v.push(ep!("lossy::Relations::from_str", Rel, &[], |s| debian_control::lossy::Relations::from_str(s).map(|r| r.to_string())));
    v.push(ep!("lossy::Relation::from_str", Rel, &[], |s| debian_control::lossy::Relation::from_str(s).map(|r| r.to_string())));
    // debian-control documents
    v.push(ep!("lossy::Control::from_str", Doc, &["lossy::control::Source", "lossy::control::Binary"], |s| debian_control::lossy::Control::from_str(s).map(|c| c.to_string())));
    v.push(ep!("lossy::apt::Source::from_str", Doc, &["lossy::apt::Source"], |s| debian_control::lossy::apt::Source::from_str(s).is_ok()));
    // (lossy apt Release has no FromStr: its only text route is a paragraph reader plus the derived from_paragraph)
    v.push(ep!("lossy::apt::Release (paragraph reader + from_paragraph)", Doc, &["lossy::apt::Release"], |s| {
        use deb822_lossless::FromDeb822Paragraph;
        let a = deb822_lossless::lossy::Paragraph::from_str(s).ok().map(|p| debian_control::lossy::apt::Release::from_paragraph(&p).is_ok());
        let b = deb822_lossless::Paragraph::from_str(s).ok().map(|p| debian_control::lossy::apt::Release::from_paragraph(&p).is_ok());
        (a, b)
    }));
    v.push(ep!("lossy::apt::Package::from_str", Doc, &["lossy::apt::Package"], |s| debian_control::lossy::apt::Package::from_str(s).is_ok()));
    v.push(ep!("lossy::buildinfo::Buildinfo::from_str", Doc, &["lossy::buildinfo::Buildinfo"], |s| debian_control::lossy::buildinfo::Buildinfo::from_str(s).is_ok()));
    v.push(ep!("lossy::ftpmaster::Removal::from_str", Doc, &["lossy::ftpmaster::Removal"], |s| debian_control::lossy::ftpmaster::Removal::from_str(s).is_ok()));
    v.push(ep!("lossless::Control::from_str", Doc, &[], |s| debian_control::lossless::control::Control::from_str(s).map(|c| c.as_deb822().to_string())));
    v.push(ep!("lossless::Control::read_relaxed", Doc, &[], |s| debian_control::lossless::control::Control::read_relaxed(Cursor::new(s.as_bytes())).is_ok()));
    v.push(ep!("lossless::Control::read", Doc, &[], |s| debian_control::lossless::control::Control::read(Cursor::new(s.as_bytes())).is_ok()));
    v.push(ep!("lossless::Control::from_file", Doc, &[], |s| with_file(s, |p| debian_control::lossless::control::Control::from_file(p).is_ok())));
    v.push(ep!("lossless::Control::from_file_relaxed", Doc, &[], |s| with_file(s, |p| debian_control::lossless::control::Control::from_file_relaxed(p).is_ok())));
    v.push(ep!("lossless::changes::Changes::from_file", Doc, &[], |s| with_file(s, |p| debian_control::lossless::changes::Changes::from_file(p).is_ok())));
    v.push(ep!("lossless::changes::Changes::from_file_relaxed", Doc, &[], |s| with_file(s, |p| debian_control::lossless::changes::Changes::from_file_relaxed(p).is_ok())));
    v.push(ep!("copyright::lossless::Copyright::from_file", Doc, &[], |s| with_file(s, |p| debian_copyright::lossless::Copyright::from_file(p).is_ok())));
    v.push(ep!("copyright::lossless::Copyright::from_file_relaxed", Doc, &[], |s| with_file(s, |p| debian_copyright::lossless::Copyright::from_file_relaxed(p).is_ok())));
    v.push(ep!("lossless::apt::Source::from_str", Doc, &[], |s| debian_control::lossless::apt::Source::from_str(s).is_ok()));
    v.push(ep!("lossless::apt::Package::from_str", Doc, &[], |s| debian_control::lossless::apt::Package::from_str(s).is_ok()));
    v.push(ep!("lossless::apt::Release::from_str", Doc, &[], |s| debian_control::lossless::apt::Release::from_str(s).is_ok()));
    v.push(ep!("lossless::changes::Changes::read", Doc, &[], |s| debian_control::lossless::changes::Changes::read(Cursor::new(s.as_bytes())).is_ok()));
    v.push(ep!("lossless::changes::Changes::read_relaxed", Doc, &[], |s| debian_control::lossless::changes::Changes::read_relaxed(Cursor::new(s.as_bytes())).is_ok()));
    v.push(ep!("lossless::buildinfo::Buildinfo::from_str", Doc, &[], |s| debian_control::lossless::buildinfo::Buildinfo::from_str(s).is_ok()));
    v.push(ep!("pgp::strip_pgp_signature", Doc, &[], |s| debian_control::pgp::strip_pgp_signature(s).is_ok()));
    // codecs
    v.push(ep!("vcs::ParsedVcs::from_str", Codec, &[], |s| debian_control::vcs::ParsedVcs::from_str(s).map(|v| v.to_string())));
    v.push(ep!("vcs::Vcs::from_field(Git)", Codec, &[], |s| debian_control::vcs::Vcs::from_field("Git", s).map(|v| v.to_field().1)));
    v.push(ep!("vcs::Vcs::from_field(Bzr)", Codec, &[], |s| debian_control::vcs::Vcs::from_field("Bzr", s).map(|v| v.to_field().1)));
    v.push(ep!("vcs::Vcs::from_field(Hg)", Codec, &[], |s| debian_control::vcs::Vcs::from_field("Hg", s).map(|v| v.to_field().1)));
    v.push(ep!("vcs::Vcs::from_field(Svn)", Codec, &[], |s| debian_control::vcs::Vcs::from_field("Svn", s).map(|v| v.to_field().1)));
    v.push(ep!("vcs::Vcs::from_field(Cvs)", Codec, &[], |s| debian_control::vcs::Vcs::from_field("Cvs", s).map(|v| v.to_field().1)));
    v.push(ep!("vcs::Vcs::from_field(<the text as name>)", Codec, &[], |s| debian_control::vcs::Vcs::from_field(s, s).is_ok()));
    v.push(ep!("parse_identity", Codec, &[], |s| debian_control::parse_identity(s).is_ok()));
    v.push(ep!("fields::Priority::from_str", Codec, &[], |s| debian_control::fields::Priority::from_str(s).is_ok()));
    v.push(ep!("fields::MultiArch::from_str", Codec, &[], |s| debian_control::fields::MultiArch::from_str(s).is_ok()));
    v.push(ep!("fields::Urgency::from_str", Codec, &[], |s| debian_control::fields::Urgency::from_str(s).is_ok()));
    v.push(ep!("fields::Sha1Checksum::from_str", Codec, &[], |s| debian_control::fields::Sha1Checksum::from_str(s).is_ok()));
    v.push(ep!("fields::Sha256Checksum::from_str", Codec, &[], |s| debian_control::fields::Sha256Checksum::from_str(s).is_ok()));
    v.push(ep!("fields::Sha512Checksum::from_str", Codec, &[], |s| debian_control::fields::Sha512Checksum::from_str(s).is_ok()));
    v.push(ep!("fields::Md5Checksum::from_str", Codec, &[], |s| debian_control::fields::Md5Checksum::from_str(s).is_ok()));
    v.push(ep!("fields::PackageListEntry::from_str", Codec, &[], |s| debian_control::fields::PackageListEntry::from_str(s).is_ok()));
    v.push(ep!("changes::File::from_str", Codec, &[], |s| debian_control::lossless::changes::File::from_str(s).is_ok()));
    v.push(ep!("relations::BuildProfile::from_str", Codec, &[], |s| debian_control::relations::BuildProfile::from_str(s).is_ok()));
    v.push(ep!("relations::VersionConstraint::from_str", Codec, &[], |s| debian_control::relations::VersionConstraint::from_str(s).is_ok()));
    // debian-copyright
    v.push(ep!("copyright::lossless::Copyright::from_str", Doc, &[], |s| debian_copyright::lossless::Copyright::from_str(s).map(|c| c.to_string())));
    v.push(ep!("copyright::lossless::Copyright::from_str_relaxed", Doc, &[], |s| debian_copyright::lossless::Copyright::from_str_relaxed(s).is_ok()));
    v.push(ep!("copyright::lossy::Copyright::from_str", Doc, &["lossy::copyright::Header", "lossy::copyright::FilesParagraph", "lossy::copyright::LicenseParagraph"], |s| debian_copyright::lossy::Copyright::from_str(s).map(|c| c.to_string())));
    v.push(ep!("copyright::License::from_str", Codec, &[], |s| debian_copyright::License::from_str(s).map(|l| l.to_string())));
    // dep3
    v.push(ep!("dep3::lossless::PatchHeader::from_str", Doc, &[], |s| dep3::lossless::PatchHeader::from_str(s).map(|h| h.to_string())));
    v.push(ep!("dep3::lossy::PatchHeader::from_str", Doc, &["lossy::dep3::PatchHeader"], |s| dep3::lossy::PatchHeader::from_str(s).is_ok()));
    v.push(ep!("dep3::Forwarded::from_str", Codec, &[], |s| dep3::Forwarded::from_str(s).is_ok()));
    v.push(ep!("dep3::OriginCategory::from_str", Codec, &[], |s| dep3::OriginCategory::from_str(s).is_ok()));
    v.push(ep!("dep3::Origin::from_str", Codec, &[], |s| dep3::Origin::from_str(s).is_ok()));
    v.push(ep!("dep3::AppliedUpstream::from_str", Codec, &[], |s| dep3::AppliedUpstream::from_str(s).is_ok()));
    // apt-sources
    v.push(ep!("apt_sources::Repositories::from_str", Doc, &["apt_sources::Repository"], |s| apt_sources::Repositories::from_str(s).is_ok()));
    v.push(ep!("apt_sources::RepositoryType::from_str", Codec, &[], |s| apt_sources::RepositoryType::from_str(s).is_ok()));
    v.push(ep!("apt_sources::YesNoForce::from_str", Codec, &[], |s| apt_sources::YesNoForce::from_str(s).is_ok()));
    v.push(ep!("apt_sources::signature::Signature::from_str", Codec, &[], |s| apt_sources::signature::Signature::from_str(s).map(|x| x.to_string())));
    v
}

#[derive(Clone, Serialize, Deserialize, PartialEq, Debug)]
pub struct C02Case {
    pub ep: String,
    pub s: String,
    #[serde(default, skip_serializing)]
    pub fresh: bool,
}

pub struct C02;

fn char_space(g: Group, t: Tier) -> SeqSpace {
    match g {
        Group::Doc => SeqSpace::new(&DEB822_CLASSES, t.pick(5, 6), 0),
        Group::Rel => SeqSpace::new(&REL_CLASSES, t.pick(4, 5), 0),
        Group::Codec => SeqSpace::new(&CODEC_CLASSES, t.pick(4, 5), 0),
    }
}
fn line_space(g: Group, t: Tier) -> Option<SeqSpace> {
    match g {
        Group::Doc => {
            // the symbols must outlive the space: leak a small static table once per call site (tiny)
            let syms: Vec<String> = DEB822_LINES.iter().map(|l| format!("{}\n", l)).chain(["A: b\r\n".to_string(), "A: b\r".to_string(), "-----BEGIN PGP SIGNED MESSAGE-----\n".to_string(), "Format: x\n".to_string()]).collect();
            let refs: Vec<&str> = syms.iter().map(|s| s.as_str()).collect();
            Some(SeqSpace::new(&refs, t.pick(2, 3), 0))
        }
        Group::Rel => Some(SeqSpace::new(&REL_TOKENS, t.pick(3, 4), 0)),
        Group::Codec => {
            let toks = ["a", "https://x/y", " -b ", " [", "]", " ", "<", ">", "=", "1", "-1", "18446744073709551616", "yes", "no", "not-needed", "upstream", "backport", ",", ":", "commit:", "é", "\n"];
            Some(SeqSpace::new(&toks, t.pick(3, 4), 0))
        }
    }
}

/// pumped inputs: w^k for every w over the group's alphabet up to length 2 (thorough 3), k in {8, 64} (thorough 512),
/// unbalanced nests and very long single lines
fn pumped(g: Group, t: Tier) -> Vec<String> {
    let alpha: Vec<&str> = match g {
        Group::Doc => DEB822_CLASSES.to_vec(),
        Group::Rel => REL_CLASSES.to_vec(),
        Group::Codec => CODEC_CLASSES.to_vec(),
    };
    let mut out = vec![];
    let sp = SeqSpace::new(&alpha, t.pick(2, 3), 0);
    let ks: &[usize] = match t {
        Tier::Quick => &[8, 64],
        Tier::Thorough => &[8, 64, 512],
    };
    sp.explore(0, &mut |w, _| {
        if w.is_empty() {
            return;
        }
        for k in ks {
            out.push(w.repeat(*k));
        }
    });
    for nest in ["(", "[", "<", "${", "a (", "a [", "a <", "a |", "a, ", "A: b\n ", "A:\n", "# c\n", "\n\n", "-----BEGIN PGP SIGNED MESSAGE-----\n\n"] {
        for k in ks {
            out.push(nest.repeat(*k));
        }
    }
    // every single symbol repeated to the limits of the narrow integer types (a length or offset kept in a u8 / u16 wraps
    // there), alone and after a short valid prefix
    for a in &alpha {
        for n in crate::props::c01::WIDTH_LIMITS {
            if a.len() == 1 || n <= 257 {
                out.push(a.repeat(n));
                out.push(format!("A: b\n{}", a.repeat(n)));
            }
        }
    }
    let n = t.pick(20_000, 100_000);
    out.push("a".repeat(n));
    out.push(format!("A: {}", "b ".repeat(n / 2)));
    out.push(format!("a ({}", "1".repeat(n)));
    out.push(" ".repeat(n));
    out
}

const GARBAGE: [&str; 11] = ["", "@ [ ( <", "x\ny", "é ü", "-1", "yes", "a b, c | d (>= 1:2~) [!x] <!y>", "18446744073709551615", "18446744073709551616", "4294967296", "00000000000000000000000001"];

/// typed documents: all-valid baseline with <= k field deviations (absent or one of the garbage values)
fn typed_docs(ep: &EntryPoint, t: Tier, f: &mut dyn FnMut(String)) {
    let specs = crate::props::c16::all_specs();
    let paras: Vec<&ParaSpec> = ep.paragraphs.iter().filter_map(|id| specs.iter().find(|s| s.id == *id)).collect();
    if paras.is_empty() {
        return;
    }
    let fields: Vec<(usize, &FieldSpec)> = paras.iter().enumerate().flat_map(|(pi, p)| p.fields.iter().map(move |fs| (pi, fs))).collect();
    // near-valid values: pieces of the field's own valid values (first / last item, value cut short, value with a tail)
    let near: Vec<Vec<String>> = fields
        .iter()
        .map(|(_, fs)| {
            let mut out: Vec<String> = vec![];
            for v in fs.valid.iter().take(2) {
                let parts: Vec<&str> = v.split(|c: char| c == ',' || c == ' ' || c == ':' || c == '\n').filter(|x| !x.is_empty()).collect();
                if let Some(first) = parts.first() {
                    out.push(first.to_string());
                }
                if let Some(last) = parts.last() {
                    out.push(last.to_string());
                }
                let mut cut = v.to_string();
                cut.pop();
                out.push(cut);
                out.push(format!("{},", v));
            }
            out.sort();
            out.dedup();
            out.retain(|x| !fs.valid.contains(&x.as_str()) && !x.is_empty());
            out.truncate(6);
            out
        })
        .collect();
    let menus: Vec<usize> = fields.iter().enumerate().map(|(i, _)| 2 + GARBAGE.len() + near[i].len()).collect();
    let k = t.pick(1, 2);
    let mut go = |v: &[usize]| {
        let mut text = String::new();
        for (pi, _) in paras.iter().enumerate() {
            if pi > 0 {
                text.push('\n');
            }
            for (fidx, ((fpi, fs), choice)) in fields.iter().zip(v.iter()).enumerate() {
                if *fpi != pi {
                    continue;
                }
                let val: Option<&str> = match *choice {
                    0 => Some(fs.valid[0]),
                    1 => None,
                    g if g - 2 < GARBAGE.len() => Some(GARBAGE[g - 2]),
                    g => Some(near[fidx][g - 2 - GARBAGE.len()].as_str()),
                };
                if let Some(val) = val {
                    text.push_str(&render_para(&[(fs.name, val)]));
                }
            }
        }
        // the same document as it may arrive: without its final newline, with CR LF line ends, with tab-indented
        // continuation lines and no blank after the colon
        let mut unterminated = text.clone();
        unterminated.pop();
        let crlf = text.replace('\n', "\r\n");
        let tabbed: String = text
            .split_inclusive('\n')
            .map(|l| if let Some(rest) = l.strip_prefix(' ') { format!("\t{}", rest) } else { l.replacen(": ", ":", 1) })
            .collect();
        f(text);
        f(unterminated);
        f(crlf);
        f(tabbed);
    };
    kdev_shard(&menus, k, None, &mut go);
    for first in 0..menus.len() {
        kdev_shard(&menus, k, Some(first), &mut go);
    }
    // every short string over the delimiters that typed values are made of (quotes, '=', ',', brackets ...) as the value
    // of each field in turn, in the otherwise all-valid document: a value codec sees a lone quote, an empty pair, a
    // delimiter with nothing on one side of it
    let alpha: &[&str] = t.pick(&SYNTAX_ALPHABET[..14], &SYNTAX_ALPHABET[..]);
    let sp = SeqSpace::new(alpha, 3, 0);
    for target in 0..fields.len() {
        sp.explore(0, &mut |val, _| {
            if val.is_empty() || val.starts_with('\n') && val.trim().is_empty() {
                return;
            }
            let mut text = String::new();
            for (pi, _) in paras.iter().enumerate() {
                if pi > 0 {
                    text.push('\n');
                }
                for (fidx, (fpi, fs)) in fields.iter().enumerate() {
                    if *fpi == pi {
                        text.push_str(&render_para(&[(fs.name, if fidx == target { val } else { fs.valid[0] })]));
                    }
                }
            }
            f(text);
        });
    }
}

/// delimiters of the typed value grammars, most common first (quick tier: the first 14)
const SYNTAX_ALPHABET: [&str; 20] = ["a", "1", " ", "\n", "\"", "=", ",", ":", "(", "[", "<", "|", "-", "'", ")", "]", ">", "$", "/", "@"];

impl Prop for C02 {
    type Case = C02Case;
    fn id(&self) -> &'static str {
        "C02"
    }
    fn level(&self) -> &'static str {
        "model_checking"
    }
    fn rule(&self, _t: Tier) -> String {
        "for each of the 60+ text-parsing entry points: (1) every string over its native character-class alphabet up to the length bound (full input trie; states = strings); (2) every sequence of its line templates / tokens up to the sequence bound; (3) pumped inputs w^k for every w up to length 2 (thorough 3) with k in {8, 64} (thorough 512), unbalanced nests, every class symbol repeated 255 / 256 / 257 / 65535 / 65536 / 65537 times (alone and after a valid line) and 20 kB (thorough 100 kB) single lines; (4) for the VCS-location codecs every sequence of 4-6 (thorough 7) tokens of the longest value grammar (url, opening bracket, subpath, closing bracket, -b, branch, blank); (5) for typed documents, the all-valid document built from the type's field table with <= 1 (thorough 2) fields absent or replaced by one of 11 garbage values (incl. numbers at and beyond the integer limits) or up to 6 near-valid values (pieces of the valid values of the field: first / last item, value cut short, value with a trailing comma) and, one field at a time, by every string of <= 3 symbols over 14 (thorough 20) delimiter characters of the typed value grammars (quotes, '=', ',', ':', brackets, '|', '-'), each k-deviation document also without its final newline, with CR LF line ends, and with tab indentation and no blank after the colon; each call runs under catch_unwind with the parser loop budget armed (quadratic envelope), the allocation cap and the stall watchdog, and pumped inputs are also timed; non-trivial = distinct (entry point, non-empty string) of tiers 1-2".into()
    }
    fn bounds(&self, t: Tier) -> Value {
        let eps = entry_points();
        json!({"entry_points": eps.iter().map(|e| e.name).collect::<Vec<_>>(), "n_entry_points": eps.len(),
               "char_bounds": {"doc": char_space(Group::Doc, t).max_len, "rel": char_space(Group::Rel, t).max_len, "codec": char_space(Group::Codec, t).max_len},
               "pumped_inputs_per_group": {"doc": pumped(Group::Doc, t).len(), "rel": pumped(Group::Rel, t).len(), "codec": pumped(Group::Codec, t).len()}})
    }
    fn assumptions(&self) -> Vec<String> {
        vec![
            "loops in uninstrumented dependencies (regex, url, chrono, debversion, rowan) carry no tick sites: a hang there is caught by the stall watchdog and the 10 s per-input time limit on pumped inputs, not by the loop budget".into(),
            "'time proportional to a small polynomial' is decided as: no instrumented loop exceeds 256+32n+2n^2 iterations and no pumped input takes longer than 10 s".into(),
        ]
    }
    fn n_shards(&self, _t: Tier) -> usize {
        entry_points().len() * 5
    }
    fn explore(&self, t: Tier, shard: usize, f: &mut dyn FnMut(&C02Case) -> Verdict) {
        let eps = entry_points();
        let ep = &eps[shard / 5];
        let mut case = C02Case { ep: ep.name.to_string(), s: String::new(), fresh: false };
        match shard % 5 {
            0 => {
                let sp = char_space(ep.group, t);
                for sh in 0..sp.n_shards() {
                    sp.explore(sh, &mut |s, _| {
                        case.s.clear();
                        case.s.push_str(s);
                        case.fresh = true;
                        f(&case);
                    });
                }
            }
            1 => {
                if let Some(sp) = line_space(ep.group, t) {
                    for sh in 0..sp.n_shards() {
                        sp.explore(sh, &mut |s, idx| {
                            if idx.len() < 2 {
                                return; // single symbols and the empty string duplicate tier 1 / add nothing
                            }
                            case.s.clear();
                            case.s.push_str(s);
                            case.fresh = true;
                            f(&case);
                        });
                    }
                }
            }
            4 => {
                // grammar-position tier: few multi-character tokens, long enough sequences to fill every position
                // of the longest value grammar (VCS location: url, subpath, branch in either order; records of 3-5 items)
                if ep.group == Group::Codec && ep.name.starts_with("vcs::") {
                    let toks = ["u", "https://host/r.git", " [", "]", " -b ", "m", "src/packaging/debian"];
                    let sp = SeqSpace::new(&toks, t.pick(6, 7), 0);
                    sp.explore(0, &mut |s, idx| {
                        if idx.len() < 4 {
                            return;
                        }
                        case.s.clear();
                        case.s.push_str(s);
                        case.fresh = false;
                        f(&case);
                    });
                }
            }
            2 => {
                for s in pumped(ep.group, t) {
                    case.s = s;
                    case.fresh = false;
                    f(&case);
                }
            }
            _ => {
                typed_docs(ep, t, &mut |text| {
                    case.s = text;
                    case.fresh = false;
                    f(&case);
                });
            }
        }
    }
    fn check(&self, c: &C02Case, st: &mut Stats) -> Vec<Viol> {
        let eps = entry_points();
        let Some(ep) = eps.iter().find(|e| e.name == c.ep) else { return vec![] };
        if c.fresh && !c.s.is_empty() {
            st.nontrivial += 1;
        }
        let t0 = Instant::now();
        let r = guard(budget_for(c.s.len()) * 4, || (ep.call)(&c.s));
        st.max_ticks = st.max_ticks.max(deb822_lossless::verif::ticks());
        let dt = t0.elapsed();
        let show = |s: &str| -> String {
            if s.len() > 200 {
                let mut e = 200;
                while !s.is_char_boundary(e) {
                    e -= 1;
                }
                format!("{:?}… ({} bytes)", &s[..e], s.len())
            } else {
                format!("{:?}", s)
            }
        };
        match r {
            Ok(()) => {
                st.outcome("returned");
                if dt.as_secs() >= 10 {
                    vec![viol("slow", format!("{} took {:.1}s on {}", ep.name, dt.as_secs_f64(), show(&c.s)))]
                } else {
                    vec![]
                }
            }
            Err(p) => {
                let clause = if is_budget(&p) { "hang" } else { "panic" };
                st.outcome(clause);
                vec![viol(clause, format!("{} on {}: {}", ep.name, show(&c.s), panic_detail(&p)))]
            }
        }
    }
    fn shrinks(&self, c: &C02Case) -> Vec<C02Case> {
        // pumped inputs: halve first
        let mut out: Vec<C02Case> = vec![];
        if c.s.len() > 64 {
            let cs: Vec<char> = c.s.chars().collect();
            for cut in [cs.len() / 2, cs.len() / 4 * 3, cs.len() - cs.len() / 8] {
                out.push(C02Case { s: cs[..cut].iter().collect(), fresh: false, ..c.clone() });
                out.push(C02Case { s: cs[cs.len() - cut..].iter().collect(), fresh: false, ..c.clone() });
            }
            return out;
        }
        shrink_string(&c.s).into_iter().map(|s| C02Case { s, fresh: false, ..c.clone() }).collect()
    }
    fn snippet(&self, c: &C02Case, v: &Viol) -> String {
        format!("// C02 replay: call {} on the string below; it must return Ok or Err without panicking or looping\n// input = {:?}\n// clause {}: {}\n", c.ep, c.s, v.clause, v.detail.replace('\n', "\\n"))
    }
    fn required_outcomes(&self) -> Vec<&'static str> {
        vec!["returned"]
    }
    fn extra_evidence(&self, _t: Tier, m: &Stats) -> Value {
        json!({"entry_points_exercised": entry_points().len(), "outcomes_note": m.outcomes})
    }
}
