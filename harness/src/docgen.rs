//! Generator of well-formed deb822 documents with their intended reading (DESIGN 3/C03).
//! A document is a choice vector over layout slots of a P x F skeleton; rendering yields both the
//! text and the model (paragraphs -> (name, value) pairs; comments with what they stand in front of).

use serde::{Deserialize, Serialize};

#[derive(Clone, Copy, Debug, PartialEq, Eq, Serialize, Deserialize)]
pub struct Skel {
    pub paras: usize,
    pub fields: usize,
}

#[derive(Clone, Debug, PartialEq, Eq)]
pub enum Anchor {
    BeforePara(usize),
    BeforeField(usize, usize),
    EndOfPara(usize),
    Trailing,
}

#[derive(Clone, Debug)]
pub struct Doc {
    pub text: String,
    pub paras: Vec<Vec<(String, String)>>,
    pub comments: Vec<(String, Anchor)>,
}

pub const LEADING: [&str; 4] = ["", "# l\n", "\n", "# l\n\n"];
pub const NAMES_ALT: [&str; 5] = ["X-y", "a.b+c~1", "A#b", "0", "[x]"];
pub const COLONS: [&str; 5] = [": ", ":", ":\t", ":  ", ":\t "];
pub const FIRSTS: [&str; 15] = ["v", "v w", "é ü", "", "#x", ":x", "a: b", "x\ty", "v  ", "日本語 😀", "v\u{a0}w\t", "ends:", "\u{202e}rtl",
    // white space that is not a blank or a tab at both ends of the line (only blanks and tabs are layout)
    "\u{a0}v\u{3000}", "\u{c}v\u{b}"];
pub const CONTS: [&str; 12] = ["", "w", "é", ".", "a:b", ":x", "-x", "w  ", "😀 z\tq", "\u{a0}w\u{3000}", "\u{c}w\u{85}", "<blank>"]; // "" = absent; "<blank>" = a continuation line holding nothing but its indentation
pub const INDENTS: [&str; 4] = [" ", "\t", "   ", " \t"];
pub const SEPS: [&str; 3] = ["\n", "\n\n", "\n# s\n\n"];
pub const TRAILING: [&str; 4] = ["", "\n", "# t\n", "\n# t\n"];

pub const FIELD_SLOTS: usize = 8;
// per field: comments (0, 1, 2 plain ones; 3 without blank after '#'; 4 a commented-out field; 5 non-ASCII with trailing blanks; 6 a bare '#'),
// name, colon, first, cont1, ind1, cont2, ind2
const FIELD_MENUS: [usize; FIELD_SLOTS] = [7, 7, 5, FIRSTS.len(), CONTS.len(), 4, CONTS.len(), 4];

pub fn menus(sk: Skel) -> Vec<usize> {
    let mut m = vec![LEADING.len()];
    for _p in 0..sk.paras {
        for _f in 0..sk.fields {
            m.extend(FIELD_MENUS);
        }
        m.push(2); // end-of-paragraph comment
        m.push(SEPS.len()); // separator (inactive for the last paragraph)
    }
    m.push(TRAILING.len());
    m.push(2); // final newline yes/no
    m
}

pub fn slot_names(sk: Skel) -> Vec<String> {
    let mut m = vec!["leading".to_string()];
    for p in 0..sk.paras {
        for f in 0..sk.fields {
            for s in ["ncomments", "name", "colon", "first", "cont1", "ind1", "cont2", "ind2"] {
                m.push(format!("p{}f{}.{}", p, f, s));
            }
        }
        m.push(format!("p{}.endcomment", p));
        m.push(format!("p{}.sep", p));
    }
    m.push("trailing".into());
    m.push("final_newline".into());
    m
}

/// Render a choice vector.  Returns None when a slot deviates although it has no effect
/// (so that every rendered vector is a distinct document).
pub fn render(sk: Skel, v: &[usize]) -> Option<Doc> {
    render_opt(sk, v, false)
}

/// `unique`: the simplest first line "v" becomes "v<p><f>" so that fields and paragraphs are distinguishable.
pub fn render_opt(sk: Skel, v: &[usize], unique: bool) -> Option<Doc> {
    if v.len() != menus(sk).len() {
        return None; // not a layout vector of this skeleton (special cases carry an empty vector)
    }
    let mut i = 0usize;
    let mut next = || {
        let x = v[i];
        i += 1;
        x
    };
    let mut text = String::new();
    let mut paras = vec![];
    let mut comments = vec![];
    let lead = next();
    text.push_str(LEADING[lead]);
    if lead == 1 || lead == 3 {
        comments.push(("# l".to_string(), Anchor::BeforePara(0)));
    }
    for p in 0..sk.paras {
        let mut fields: Vec<(String, String)> = vec![];
        for f in 0..sk.fields {
            let (nc, nm, co, fi, c1, i1, c2, i2) = (next(), next(), next(), next(), next(), next(), next(), next());
            let shaped: Vec<String> = match nc {
                0..=2 => (0..nc).map(|k| format!("# c{}{}{}", p, f, k)).collect(),
                3 => vec![format!("#c{}{}", p, f)],
                4 => vec![format!("# A{}{}: b", p, f)],
                5 => vec![format!("# é{}{}  ", p, f)],
                _ => {
                    if comments.iter().any(|(c, _): &(String, Anchor)| c == "#") {
                        return None; // comments are identified by their text: at most one bare '#'
                    }
                    vec!["#".to_string()]
                }
            };
            for c in shaped {
                text.push_str(&c);
                text.push('\n');
                comments.push((c, Anchor::BeforeField(p, f)));
            }
            let name: String = match nm {
                0 => ["A", "B", "C", "D"][f].to_string(),
                1 => {
                    if f == 0 {
                        return None;
                    }
                    fields[f - 1].0.clone()
                }
                n => NAMES_ALT[n - 2].to_string(),
            };
            if (c1 == 0 && i1 != 0) || (c2 == 0 && i2 != 0) {
                return None;
            }
            // an empty first line directly followed by the value keeps the colon spacing meaningful only
            // when something follows on the line; ":\t" / ":  " with an empty first line is trailing whitespace (allowed)
            text.push_str(&name);
            text.push_str(COLONS[co]);
            let first_owned = if unique && fi == 0 { format!("v{}{}", p, f) } else { FIRSTS[fi].to_string() };
            text.push_str(&first_owned);
            text.push('\n');
            let mut lines: Vec<&str> = vec![];
            if !first_owned.is_empty() {
                lines.push(&first_owned);
            }
            for (c, ind) in [(c1, i1), (c2, i2)] {
                if c == CONTS.len() - 1 {
                    // whitespace-only continuation line: error-free, contributes no value line
                    text.push_str(INDENTS[ind]);
                    text.push('\n');
                } else if c != 0 {
                    text.push_str(INDENTS[ind]);
                    text.push_str(CONTS[c]);
                    text.push('\n');
                    lines.push(CONTS[c]);
                }
            }
            // a blank continuation line at the very end of a value is indistinguishable from trailing whitespace
            // of the paragraph for some layouts; keep it only when a real line follows it
            if c2 == CONTS.len() - 1 || (c1 == CONTS.len() - 1 && c2 == 0) {
                return None;
            }
            fields.push((name, lines.join("\n")));
        }
        let endc = next();
        if endc == 1 {
            let c = format!("# e{}", p);
            text.push_str(&c);
            text.push('\n');
            comments.push((c, Anchor::EndOfPara(p)));
        }
        let sep = next();
        if p + 1 < sk.paras {
            text.push_str(SEPS[sep]);
            if sep == 2 {
                comments.push(("# s".to_string(), Anchor::BeforePara(p + 1)));
            }
        } else if sep != 0 {
            return None;
        }
        paras.push(fields);
    }
    let tr = next();
    text.push_str(TRAILING[tr]);
    if tr >= 2 {
        comments.push(("# t".to_string(), Anchor::Trailing));
    }
    let fin = next();
    if fin == 1 {
        if tr == 1 {
            return None; // would coincide with the document without the trailing blank line
        }
        if text.ends_with('\n') {
            text.pop();
        }
    }
    Some(Doc { text, paras, comments })
}

/// Skeletons explored by the document-based checks.
pub fn skeletons() -> Vec<Skel> {
    let mut v = vec![];
    for paras in 1..=3 {
        for fields in 1..=3 {
            v.push(Skel { paras, fields });
        }
    }
    v
}
