//! C15 accessor table.  One `Row` per getter/setter pair of the lossless typed views, one `ReadRow`
//! per getter-on-raw-text reading.  Field names are written from Debian Policy / deb822 man pages /
//! the accessor's doc comment -- NOT copied from the accessor's body.
//!
//! Conventions: `run(doc_text, vi)` builds the view over `doc_text`, calls the setter with value
//! number `vi` of the row's menu (vi == n_values means "clear" when has_clear), and reports the
//! printed document, `format!("{:?}", getter())` and the Debug rendering of the value that was set
//! in the getter's return type.  `get(doc_text)` builds the view and returns `format!("{:?}", getter())`.

use crate::props::c15::{Obs, ReadRow, Row};
use debian_control::lossless::control::Control;
use std::str::FromStr;

// ---- control::Source ------------------------------------------------------------------------------

fn control(text: &str) -> Result<Control, String> {
    Control::from_str(text).map_err(|e| e.to_string())
}

macro_rules! control_source_row {
    ($accessor:literal, $field:literal, $prior:literal, clear = $clear:literal, values = [$($val:expr),+],
     set = |$s:ident, $v:ident| $set:expr, clear_set = |$cs:ident| $cset:expr, get = |$g:ident| $get:expr, want = |$w:ident| $want:expr) => {{
        fn run(doc: &str, vi: usize) -> Result<Obs, String> {
            let c = control(doc)?;
            let mut $s = c.source().ok_or("no source paragraph")?;
            let vals = vec![$($val),+];
            let want: String;
            if vi < vals.len() {
                {
                    let $w = vals[vi].clone();
                    want = format!("{:?}", $want);
                }
                let $v = vals[vi].clone();
                $set;
            } else {
                let $cs = &mut $s;
                want = "None".to_string();
                $cset;
            }
            let $g = &$s;
            let got = format!("{:?}", $get);
            Ok(Obs { after: c.as_deb822().to_string(), got, want })
        }
        fn get(doc: &str) -> Result<String, String> {
            let c = control(doc)?;
            let s = c.source().ok_or("no source paragraph")?;
            let $g = &s;
            Ok(format!("{:?}", $get))
        }
        Row {
            view: "control::Source",
            accessor: $accessor,
            field: $field,
            base: "Source: foo\n",
            sibling: Some("Package: other\n"),
            prior_raw: $prior,
            n_values: [$(stringify!($val)),+].len(),
            has_clear: $clear,
            run,
            get,
        }
    }};
}

pub fn rows() -> Vec<Row> {
    let mut v = vec![];
    v.push(control_source_row!("standards_version", "Standards-Version", "3.9.8", clear = false,
        values = ["4.6.0".to_string(), "4.7.0.1".to_string()],
        set = |s, x| s.set_standards_version(&x), clear_set = |_s| (), get = |s| s.standards_version(), want = |x| Some(x)));
    v.push(control_source_row!("section", "Section", "net", clear = true,
        values = ["libs".to_string(), "contrib/utils".to_string()],
        set = |s, x| s.set_section(Some(&x)), clear_set = |s| s.set_section(None), get = |s| s.section(), want = |x| Some(x)));
    v.push(control_source_row!("priority", "Priority", "extra", clear = true,
        values = [debian_control::fields::Priority::Optional, debian_control::fields::Priority::Required],
        set = |s, x| s.set_priority(Some(x)), clear_set = |s| s.set_priority(None), get = |s| s.priority(), want = |x| Some(x)));
    v.push(control_source_row!("build_depends", "Build-Depends", "old (>= 1)", clear = false,
        values = ["debhelper (>= 9), foo | bar".to_string(), "a".to_string()],
        set = |s, x| s.set_build_depends(&x.parse().unwrap()), clear_set = |_s| (),
        get = |s| s.build_depends().map(|r| r.to_string()), want = |x| Some(x)));
    v
}

pub fn read_rows() -> Vec<ReadRow> {
    fn source_name(doc: &str) -> Result<String, String> {
        let c = control(doc)?;
        Ok(format!("{:?}", c.source().and_then(|s| s.name())))
    }
    vec![ReadRow {
        view: "control::Control",
        accessor: "source().name()",
        cases: &[("Package: a\n\nSource: foo\nSection: x\n", "Some(\"foo\")"), ("Package: a\n", "None")],
        get: source_name,
    }]
}
