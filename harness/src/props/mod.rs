pub mod c01;
pub mod c03;
pub mod c06;
pub mod c09;
