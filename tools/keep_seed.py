#!/usr/bin/env python3
"""usage: keep_seed.py <seed id> <worktree> <property> <detected-by text> <confirm line>
copies SEED/{patch.diff,demo.rs,meta.json} to /verif/seeded/<seed id>/ and extends meta.json"""
import json, os, shutil, sys
sid, wt, prop, detected, confirm = sys.argv[1:6]
dst = os.path.join('/verif/seeded', sid)
os.makedirs(dst, exist_ok=True)
for f in ('patch.diff', 'demo.rs'):
    shutil.copy(os.path.join(wt, 'SEED', f), os.path.join(dst, f))
try:
    meta = json.load(open(os.path.join(wt, 'SEED', 'meta.json')))
except Exception as e:
    meta = {"note": "agent meta.json unreadable: %s" % e}
meta['breaks_property'] = prop
meta['confirmed_by_builder'] = confirm
meta['detection'] = detected
json.dump(meta, open(os.path.join(dst, 'meta.json'), 'w'), indent=1, ensure_ascii=False)
print('kept', dst)
