#!/usr/bin/env python3
"""Writes tools/design_parts/s3a.md: per property the bounds actually explored and the measured sizes.
Sizes are taken from notes/quick_run.log and notes/thorough_run.log (one summary line per check, as printed by ./check)."""
import os, re
ROOT = os.path.dirname(os.path.dirname(os.path.abspath(__file__)))

def load(name):
    out = {}
    p = os.path.join(ROOT, 'notes', name)
    if os.path.exists(p):
        for l in open(p):
            m = re.match(r'(C\d\d) tier=\w+ evaluations=(\d+) .* wall=([\d.]+)s', l)
            if m:
                out[m.group(1)] = (int(m.group(2)), float(m.group(3)))
    return out

def fmt(n):
    if n >= 1_000_000:
        return '%.2f·10⁶' % (n / 1e6) if n < 10_000_000 else '%.1f·10⁶' % (n / 1e6)
    if n >= 10_000:
        return '%d k' % round(n / 1000)
    return str(n)

ROWS = [
 ('C01', 'E1 + E4', '10 classes to N=6; 48 line×terminator symbols to 2 lines, 16 LF lines to 4 lines (each also without its last char); 11 592 lexer-mode witness strings; 60 documents with one token stretched to 255 … 65537 characters; every string through 5 readers: `from_str`, `from_str_relaxed`, `read`/`read_relaxed` over a cursor, over 1-byte reads (2- and 3-byte reads when not ASCII) and over a reader failing half-way',
  'N=8; 3 / 5 lines; 11 classes to N=7', 'witness strings get the full check; short-read / failing readers added after seed C01e'),
 ('C02', 'E1 + pumping + E4', '86 entry points (incl. serde `Deserialize`, `from_file` family via scratch files, chunked and failing readers); doc N=5, rel N=4, codec N=4 (17 classes incl. three characters with irregular case mappings); token/line sequences to 2–3; w^k (w ≤ 2, k ≤ 64); 20 kB lines; typed docs k ≤ 1 with 7 garbage + ≤ 6 near-valid values, and per field every string of ≤ 3 symbols over 14 delimiter characters; VCS grammar tier',
  'N=6/5/5, sequences 3–4, w ≤ 3, k ≤ 512, 100 kB, typed docs k ≤ 2, delimiter strings over 20 characters, VCS tier to 7', 'lossy apt `Release` has no text entry point (reached through C16/C20); typed getters are outside the quantifier (§4.3); a process death is located and reported as a verdict (§2.6)'),
 ('C03', 'E2', '9 skeletons, k=3 on ≤ 2 fields else 2 (7 comment shapes, 13 first lines, 10 continuation lines, 5 colon spacings …); reject clause on k ≤ 1 × every line × 10 corruptions (4 junk lines inserted, the same 4 as unterminated last line, colon deleted, indentation removed); 184 field-name-character cases; 36 long-token documents (255 … 65537 characters) with their reading',
  'k=4 / 3', '—'),
 ('C04', 'E3', '28 fixed initial states × {fresh, early handles} to depth 3 (+2 uncached); every generated layout with ≤ 1 deviation × both final-newline settings on a 2×2 skeleton to depth 1; ops over 4 keys (one a case twin) × 4 values (one of three lines) per paragraph; accessors, `rename` result and pre-operation handles checked in every state',
  'depth 4 (+2); layouts: depth 2, + ≤ 2 deviations on 1×2, one more key', '—'),
 ('C05', 'E3', '27 fixed initial documents to depth 3 (+2 uncached); generated layouts (2×1, 3×1, ≤ 1 deviation × final newline) to depth 1; add / insert(0..=len+1) / remove(0..=len), bare and "then set", + 5 field edits per paragraph; pre-operation handles followed across paragraph operations',
  'depth 5 (+3); layouts depth 2, + 2×2 and ≤ 2 deviations', '—'),
 ('C06', 'E1 + E2', "C01's spaces + C03's documents + all corruptions of k ≤ 1 documents + CR / CR LF / all-CR terminator variants of k ≤ 1 (k ≤ 2 on small skeletons) documents",
  'same as C01/C03 thorough', 'a lossy crash on a string that is not a well-formed document is left to C02'),
 ('C07', 'E2 × full product', '5 skeletons (k=2 on 1×1 else 1, × final newline) × 864 settings (−240 formatter/comparator combinations); `wrap_and_sort(_, None)`; 5 documents without paragraphs, 3 with comment lines inside values, 6 live documents with a field-less paragraph and 8 documents whose sort keys tie × 864; an indented comment in front of every line of k ≤ 1 layouts (2 skeletons) under line-preserving formatters; 8 control files × 24 settings and 150 orderings of 2–3 paragraphs out of 6 kinds (ties included) × 2 settings × {Control, Source/Binary} compared with the deb822-level reformatting under the documented formatter/order',
  'k=3 / 2 / 1', 'comparators depend on names/values only; CR-terminated documents are not in the quantifier (§4.3)'),
 ('C08', 'E2 + E3', '3 names × 22 values: 1 paragraph × 1–3 fields, 2–3 paragraphs × 1 field, the empty document; every printable ASCII name character × 3 positions × 4 values; edits depth 4 from 6 paragraphs (5 names × 4 values in the first two steps, 3 × 2 deeper)', '+ 2×2 paragraphs, edits depth 6', 'continuation lines starting with `#` are outside the domain'),
 ('C09', 'E1', '21 classes to N=5; 20 tokens to 4; 72 fields with one token of 255 … 65537 characters; every ASCII and 14 non-ASCII characters × 22 prefixes × 8 suffixes; single-entry / single-relation readers compared with the field reader; every ordered pair of the three field readers back to back vs in isolation (strings to 4 symbols and every string with a `$`)', 'N=6; 6 tokens', '—'),
 ('C10', 'E2', '9 skeletons × {substvars off, on}: k=2 on ≤ 2 relations else 1 over 13 relation slots (3 names, 6 operators, 8 versions (epoch × upstream shape × revision), 6 arch lists, 8 profile lists, blanks inside brackets, line breaks between items …); full product of the relation parts (7 776) × every single whitespace deviation; 132 identifier-character cases',
  'k=4 / 3 / 2', 'lossy clause skipped for a line break inside a list (§7)'),
 ('C13', 'E2', "C10's fields; every field with ≤ 1 deviation also under each of the 16 Policy relationship field names through `Control` and `Source/Binary::wrap_and_sort` (2 settings); live reading of the result", 'k=4 / 3 / 2', 'ties between equal first names are not constrained (§4.3)'),
 ('C11', 'E3', '13 fixed + 5 constructor-built initial fields to depth 2 (+1 uncached); 8 layout templates × every single whitespace deviation to depth 1; ≈ 300 ops at a 2×2 field (9 relation operands, 6 entry operands incl. one that is == to existing content, 11 relation edits, pairs through one relation / one entry handle, `Entry::remove`); separators, returned values, `len`/`is_empty`',
  'depth 3 (+2); templates: double deviations depth 1, single deviations depth 2', 'field size bounded at 3 entries × 3 alternatives'),
 ('C12', 'E2 product', 'complete table 6 ops × 11 × 12, also on decorated relations and next to substitution variables (pool with zero and non-zero epochs); nesting ≤ 3 entries × 1–3 alternatives; same-package alternatives; fields over three shared package names × 8 installed sets; lookup exactness probes; each on lossless trees of 5 provenances and lossy values of 2, and parsed from text with an empty entry in front / between all entries / behind', 'pool of 16 versions, 4 entries', '—'),
 ('C14', 'E2 product', '2 × 2 × 6 × 7 × 76 = 12 768 relations (up to 3 architectures and 4 profile groups) (each also through `RelationBuilder`, converted tree read live); fields ≤ 2 × ≤ 2 over 12, the empty value, 3 alternatives', '+ 3 entries × ≤ 2 over a 6-element subset', '—'),
 ('C15', 'E2 table', '146 pairs × values × 8 priors (14 for fields with an alias name; + sibling-accessor clause); all ordered setter pairs per view through re-read text AND on one live view (also + clear / + re-set); 77 reading rows incl. `add_source` / `add_binary`', 'same', 'table written by a sub-agent from the accessor inventory, triaged (§4.3)'),
 ('C16', 'E2', '32 structs (16 shapes + 3 with split attributes + 1 + 12 shipped), k=2 over all table values (incl. the empty string), 7 update priors (incl. repeated names, a case-variant foreign name, a built paragraph), back-ends compared after update, live read-back, `to_paragraph()` printed and re-read; 4 in-memory values per free-text field × 2 × 2 back-ends', 'k=3', '—'),
 ('C17', 'E2', 'patterns ≤ 3 tokens × paths ≤ 2 chars over 12/10 symbols, second alphabet (12 symbols) to 2 × 2; 6 481 copyright files × 6 licence sets × 6 paths, 7 layouts (header with licence, licence paragraphs before / between Files, no final newline, comment lines) on ≤ 1 Files paragraph; relaxed and file readers', 'patterns ≤ 4 / paths ≤ 3; second alphabet 3 × 3; layouts on ≤ 2 Files paragraphs; third Files paragraph from 8 configurations', 'regex compilation per `matches()` call dominates the time'),
 ('C18', 'E2 + E1 reject', '25 families + 12 rows for keywords inside composite values, ≈ 2 170 values, canonical texts, ≈ 11 k reject strings per keyword row', 'reject strings to length 5', 'two `extra` keys of a package-list entry print in hash order (not compared)'),
 ('C19', 'E4', '7 × 6 880 × 43 messages (20 payload templates incl. 2-, 3- and 4-byte characters at byte offsets 0–2 and NUL, 6 signature-line templates) × (all line cuts + 4 appends + intact + unsigned + 4 armour-like first lines), byte cuts for the small sub-family; a 255 … 65537-character payload line / signature line / armour header with every line cut', 'payload ≤ 4 lines', '—'),
 ('C20', 'E2', '9 kinds, 25 shapes, k=1 over all table values, 8 layouts', 'k=2', '—'),
]

q, t = load('quick_run.log'), load('thorough_run.log')
out = ["## 3A. As built: where the checks differ from the designs above, and measured sizes\n",
       "The designs of §3 were written before the code. What was built follows them; the table records the bounds that",
       "are actually explored (quick / thorough), the measured sizes on this box (16 workers; wall times depend on what",
       "else was running), and deviations. \"cases\" are executions of the real implementation; the counts are those of",
       "`notes/quick_run.log` / `notes/thorough_run.log` (copied from the checks' own summary lines; the same numbers are in",
       "`evidence/<id>.json` after a run).\n",
       "| id | engine | quick bound | quick cases, wall | thorough bound | thorough cases, wall | notes |",
       "|---|---|---|---|---|---|---|"]
for (cid, eng, qb, tb, note) in ROWS:
    qs = '%s, %.0f s' % (fmt(q[cid][0]), q[cid][1]) if cid in q else 'n/a'
    ts = '%s, %.0f s' % (fmt(t[cid][0]), t[cid][1]) if cid in t else 'n/a'
    out.append('| %s | %s | %s | %s | %s | %s | %s |' % (cid, eng, qb, qs, tb, ts, note))
open(os.path.join(ROOT, 'tools', 'design_parts', 's3a.md'), 'w').write('\n'.join(out) + '\n')
print('s3a.md written; quick numbers for', len(q), 'checks, thorough for', len(t))
