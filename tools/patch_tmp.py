import re
p = '/verif/harness/src/props/c15_rows.rs'
s = open(p).read()

# 1. empty string lists are not valid values of these Debian list fields (an empty field value) -> not in the menus
n0 = s.count(', Vec::<String>::new()]')
s = s.replace(', Vec::<String>::new()]', ']')
print('removed empty string-list values:', n0)

def drop_block(start_marker, what):
    """remove one read_row!(...) invocation starting at the line containing start_marker"""
    global s
    i = s.index(start_marker)
    a = s.rfind('\n', 0, i) + 1
    # the invocation ends at the first line that is exactly '        ]),'
    b = s.index('\n        ]),\n', i) + len('\n        ]),\n')
    # also drop a comment line directly in front
    prev = s.rfind('\n', 0, a - 1) + 1
    if s[prev:a].strip().startswith('//'):
        a = prev
    s = s[:a] + s[b:]
    print('dropped', what)

def drop_case(marker, what):
    """remove one (text, want) tuple line (possibly two physical lines) containing marker"""
    global s
    i = s.index(marker)
    a = s.rfind('\n', 0, i) + 1
    # tuple ends with '),\n' at the end of a line
    b = s.index('),\n', i) + 3
    s = s[:a] + s[b:]
    print('dropped case', what)

drop_block('[field names in another case]', 'case-insensitive field names (the library is case-sensitive throughout; the statement only says paragraphs are found by their Source/Package fields)')
drop_block('[as written in archive Release files]', "reading of 'Packages' as a yes/no flag (no documented boolean reading)")
drop_case('Format-Specification: http://svn.debian.org', 'Format-Specification fallback (text not starting with Format is refused by design, C17)')
drop_case('Files-Excluded: vendor/* *.min.js\\n docs/rfc*.txt', 'Files-Excluded whitespace splitting (uscan convention, not DEP-5)')
drop_case('License: Expat\\n header text', 'header paragraph carrying a License field')
# FilesParagraph.copyright on an absent field
i = s.index('read_row!("copyright::FilesParagraph", "copyright"')
j = s.index('\n        ]),\n', i)
seg = s[i:j]
lines = seg.split('\n')
lines = [l for l in lines if not (l.strip().endswith('"[]"),') and 'Copyright' not in l.split('License')[0].replace('copyright-format', ''))]
s = s[:i] + '\n'.join(lines) + s[j:]
# substvars are reported by substvars(), not among the entries
s = s.replace('"Some([\\"${shlibs:Depends}\\", \\"libc6 (>= 2.36)\\", \\"a | b\\"])"', '"Some([\\"libc6 (>= 2.36)\\", \\"a | b\\"])"')
open(p, 'w').write(s)

p = '/verif/harness/src/props/c15.rs'
s = open(p).read()
old = '''    let o2 = match (b.run)(&o1.after, 0) {'''
new = '''    if o1.got != o1.want {
        return out; // the first setter alone already fails: reported by its own Set case
    }
    let o2 = match (b.run)(&o1.after, 0) {'''
assert old in s
s = s.replace(old, new)
open(p, 'w').write(s)
