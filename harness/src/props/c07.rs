//! C07 — wrap-and-sort never changes content, keeps comments, is idempotent (DESIGN 3/C07).

use crate::core::*;
use crate::docgen::*;
use crate::kdev::*;
use crate::props::c03::{shrink_doc, DocCase};
use crate::props::edit::scan;
use deb822_lossless::lossless::Entry;
use deb822_lossless::{Deb822, Indentation, Paragraph};
use serde::{Deserialize, Serialize};
use serde_json::{json, Value};
use std::cmp::Ordering;
use std::str::FromStr;

#[derive(Clone, Serialize, Deserialize, PartialEq, Debug)]
pub struct Cfg {
    pub indent: usize,   // 0..4: Spaces(1), Spaces(2), Spaces(4), FieldNameLength
    pub iel: bool,       // immediate_empty_line
    pub oneliner: usize, // 0..3: None, Some(6), Some(1000)
    pub porder: usize,   // 0..3: None, by value of field A, reverse
    pub eorder: usize,   // 0..3: None, by name, by (value, name) reversed
    pub fmt: usize,      // 0..4: None, identity, one word per line, re-indented lines starting on the next line
}

#[derive(Clone, Serialize, Deserialize, PartialEq, Debug)]
pub enum C07Case {
    Doc { doc: DocCase, cfg: Cfg },
    Control { text: usize, cfg: Cfg, via: usize },
    /// a document without paragraphs (index into NO_PARA_TEXTS)
    Fixed { text: usize, cfg: Cfg },
    /// a generated document with an INDENTED comment line inserted in front of line `at` (a comment line inside a value)
    InnerComment { doc: DocCase, at: usize, cfg: Cfg },
}

pub const CONTROL_TEXTS: [&str; 8] = [
    "Source: foo\nMaintainer: X <x@y>\nUploaders: A <a@b>, B <c@d>,   C <e@f>\nBuild-Depends: debhelper (>= 9), bar\n\nPackage: foo\nArchitecture: any\nDepends: libc6 (>= 2.0), foo | bar\nDescription: short\n long line one\n .\n long line two\n",
    "Source: foo\nBuild-Depends: b,\n a (>= 1),\n c\n\nPackage: zeta\nDepends: x\n\nPackage: alpha\nDepends: y   |  z\n",
    "Source: foo\n\nPackage: foo\nDepends: ${misc:Depends}, ${shlibs:Depends}, libc6\nRecommends: ${misc:Recommends}\n",
    "# top\nSource: foo\n# about bd\nBuild-Depends: z, a\n\n# about pkg\nPackage: foo\nDepends: b, a\n# end\n",
    "Package: b\nDepends: a\n\nSource: s\nUploaders: A <a@b>\n\nPackage: a\nSuggests: q (<< 2)  ,p\n",
    "Source: foo\nBuild-Depends:\n debhelper-compat (= 13),\n dh-python,\n\nPackage: foo\nDepends:\n",
    "Source: foo\nBuild-Depends: a [amd64 i386] <x>, b:any (>= 1.0~rc1)\n",
    "Source: foo\nHomepage: https://example.com/\nVcs-Git: https://x/y.git -b main\n\nPackage: foo\nPre-Depends: a\nBreaks: b (<< 1)\nEnhances: c\nDescription: d\n",
];

/// Paragraph kinds for the ordering clause of the control wrapper: two source paragraphs, two binary paragraphs of the
/// SAME name (a tie), another binary, a paragraph of neither kind.
const CONTROL_PARAS: [&str; 6] = ["Source: alpha\nBuild-Depends: b, a\n", "Source: zeta\n", "Package: a\nDepends: y\n", "Package: a\nDepends: x\n", "Package: b\n", "X-Other: 1\n"];
/// further control files: Uploaders in the one-per-line layout with a comma behind the last one, with an empty item; an
/// unterminated last relationship field; leading blank lines and two blank lines between paragraphs
const CONTROL_EXTRA: [&str; 4] = [
    "Source: s\nUploaders: A <a@b>,\n B <c@d>,\n\nPackage: p\n",
    "Source: s\nUploaders: A <a@b>,, B <c@d>\n",
    "Source: foo\nBuild-Depends: b,\n a",
    "\n\nSource: s\n\n\nPackage: p\nDepends: y, x",
];

/// control text `i`: the fixed ones, then every ordered selection of 2 and of 3 distinct paragraph kinds
pub fn control_text(i: usize) -> Option<String> {
    if i < CONTROL_TEXTS.len() {
        return Some(CONTROL_TEXTS[i].to_string());
    }
    let mut j = i - CONTROL_TEXTS.len();
    if j < CONTROL_EXTRA.len() {
        return Some(CONTROL_EXTRA[j].to_string());
    }
    j -= CONTROL_EXTRA.len();
    let n = CONTROL_PARAS.len();
    if j < n * (n - 1) {
        let (a, b) = (j / (n - 1), j % (n - 1));
        let b = if b >= a { b + 1 } else { b };
        return Some([CONTROL_PARAS[a], CONTROL_PARAS[b]].join("\n"));
    }
    j -= n * (n - 1);
    if j < n * (n - 1) * (n - 2) {
        let (a, r) = (j / ((n - 1) * (n - 2)), j % ((n - 1) * (n - 2)));
        let rest: Vec<usize> = (0..n).filter(|x| *x != a).collect();
        let (b, c) = (rest[r / (n - 2)], r % (n - 2));
        let rest2: Vec<usize> = rest.iter().cloned().filter(|x| *x != b).collect();
        return Some([CONTROL_PARAS[a], CONTROL_PARAS[b], CONTROL_PARAS[rest2[c]]].join("\n"));
    }
    None
}
pub fn n_control_texts() -> usize {
    let n = CONTROL_PARAS.len();
    CONTROL_TEXTS.len() + CONTROL_EXTRA.len() + n * (n - 1) + n * (n - 1) * (n - 2)
}

fn cfg_menus() -> Vec<usize> {
    vec![4, 2, 3, 3, 3, 4]
}
fn cfg_from(v: &[usize]) -> Cfg {
    Cfg { indent: v[0], iel: v[1] == 1, oneliner: v[2], porder: v[3], eorder: v[4], fmt: v[5] }
}
fn indentation(c: &Cfg) -> Indentation {
    match c.indent {
        0 => Indentation::Spaces(1),
        1 => Indentation::Spaces(2),
        2 => Indentation::Spaces(4),
        _ => Indentation::FieldNameLength,
    }
}
fn oneliner(c: &Cfg) -> Option<usize> {
    [None, Some(6), Some(1000)][c.oneliner]
}

fn fmt_identity(_k: &str, v: &str) -> String {
    v.to_string()
}
fn fmt_words(_k: &str, v: &str) -> String {
    v.split_whitespace().collect::<Vec<_>>().join("\n")
}
/// multi-line output that starts on the next line and carries its own (odd) indentation and trailing blanks
fn fmt_indented(_k: &str, v: &str) -> String {
    let lines: Vec<String> = v.split('\n').map(|l| l.trim()).filter(|l| !l.is_empty()).map(|l| format!("   {} ", l)).collect();
    if lines.len() > 1 {
        format!("\n{}", lines.join("\n"))
    } else {
        lines.concat()
    }
}

fn pcmp(a: &Paragraph, b: &Paragraph) -> Ordering {
    a.get("A").cmp(&b.get("A"))
}
fn pcmp_rev(a: &Paragraph, b: &Paragraph) -> Ordering {
    b.get("A").cmp(&a.get("A"))
}
fn ecmp_name(a: &Entry, b: &Entry) -> Ordering {
    a.key().cmp(&b.key())
}
fn ecmp_valname_rev(a: &Entry, b: &Entry) -> Ordering {
    (b.value(), b.key()).cmp(&(a.value(), a.key()))
}

fn wrap_para(p: &Paragraph, c: &Cfg) -> Paragraph {
    let se: Option<&dyn Fn(&Entry, &Entry) -> Ordering> = match c.eorder {
        0 => None,
        1 => Some(&ecmp_name),
        _ => Some(&ecmp_valname_rev),
    };
    let fv: Option<&dyn Fn(&str, &str) -> String> = match c.fmt {
        0 => None,
        1 => Some(&fmt_identity),
        2 => Some(&fmt_words),
        _ => Some(&fmt_indented),
    };
    p.wrap_and_sort(indentation(c), c.iel, oneliner(c), se, fv)
}

fn wrap_doc(d: &Deb822, c: &Cfg) -> Deb822 {
    let sp: Option<&dyn Fn(&Paragraph, &Paragraph) -> Ordering> = match c.porder {
        0 => None,
        1 => Some(&pcmp),
        _ => Some(&pcmp_rev),
    };
    let wp = |p: &Paragraph| wrap_para(p, c);
    d.wrap_and_sort(sp, Some(&wp))
}

type Lines = Vec<String>;
type PContent = Vec<(String, Lines)>;

fn vlines(v: &str) -> Lines {
    v.split('\n').map(|l| l.trim()).filter(|l| !l.is_empty()).map(|l| l.to_string()).collect()
}
fn expected_lines(v: &str, c: &Cfg) -> Lines {
    match c.fmt {
        2 => v.split_whitespace().map(|w| w.to_string()).collect(),
        _ => vlines(v),
    }
}
fn content_of(d: &Deb822) -> Vec<PContent> {
    d.paragraphs().map(|p| p.items().map(|(k, v)| (k, vlines(&v))).collect()).collect()
}

/// Compare `got` with `want` (already in the expected order) allowing permutations inside runs of equal sort key.
fn eq_up_to_ties<T: Clone + Ord + std::fmt::Debug, K: PartialEq>(got: &[T], want: &[T], key: impl Fn(&T) -> K) -> bool {
    if got.len() != want.len() {
        return false;
    }
    let mut i = 0;
    while i < want.len() {
        let mut j = i + 1;
        while j < want.len() && key(&want[j]) == key(&want[i]) {
            j += 1;
        }
        let mut a: Vec<T> = got[i..j].to_vec();
        let mut b: Vec<T> = want[i..j].to_vec();
        a.sort();
        b.sort();
        if a != b {
            return false;
        }
        i = j;
    }
    true
}

/// The expected content after reformatting, in expected order; entries/paragraphs with equal sort keys may be permuted.
fn expected_content(model: &[Vec<(String, String)>], c: &Cfg) -> Vec<PContent> {
    let mut paras: Vec<(Option<String>, PContent)> = model
        .iter()
        .map(|p| {
            let akey = p.iter().find(|(k, _)| k == "A").map(|(_, v)| v.clone());
            let mut fields: Vec<(String, String)> = p.clone();
            match c.eorder {
                1 => fields.sort_by(|a, b| a.0.cmp(&b.0)),
                2 => fields.sort_by(|a, b| (b.1.clone(), b.0.clone()).cmp(&(a.1.clone(), a.0.clone()))),
                _ => {}
            }
            (akey, fields.into_iter().map(|(k, v)| (k, expected_lines(&v, c))).collect())
        })
        .collect();
    match c.porder {
        1 => paras.sort_by(|a, b| a.0.cmp(&b.0)),
        2 => paras.sort_by(|a, b| b.0.cmp(&a.0)),
        _ => {}
    }
    paras.into_iter().map(|(_, p)| p).collect()
}

fn check_doc(doc: &Doc, c: &Cfg) -> Vec<Viol> {
    let mut out = vec![];
    let text = &doc.text;
    let Ok(d) = Deb822::from_str(text) else {
        return out; // not error-free: outside C07's domain (C03 reports it)
    };
    let result = wrap_doc(&d, c);
    let out_text = result.to_string();
    let ctx = |what: &str| format!("input {:?} cfg {:?} output {:?}: {}", text, c, out_text, what);
    // (i) parses strictly
    let re = match Deb822::from_str(&out_text) {
        Ok(r) => r,
        Err(e) => {
            out.push(viol("result-parses", ctx(&e.to_string().replace('\n', "; "))));
            return out;
        }
    };
    // (ii) re-read == what the returned object reports
    let live: Vec<Vec<(String, String)>> = result.paragraphs().map(|p| p.items().collect()).collect();
    let reread: Vec<Vec<(String, String)>> = re.paragraphs().map(|p| p.items().collect()).collect();
    if live != reread {
        out.push(viol("live-equals-reread", ctx(&format!("live {:?} re-read {:?}", live, reread))));
    }
    // (iii) + (iv) content and order
    let got = content_of(&re);
    let want = expected_content(&doc.paras, c);
    let para_key = |p: &PContent| -> Option<Lines> {
        if c.porder == 0 {
            return None;
        }
        // sort key of the paragraph as the comparator saw it: value of field A (input value == expected lines joined)
        p.iter().find(|(k, _)| k == "A").map(|(_, l)| l.clone())
    };
    let norm = |p: &PContent| -> PContent {
        let mut q = p.clone();
        if c.eorder != 0 {
            q.sort();
        }
        q
    };
    let got_n: Vec<PContent> = got.iter().map(norm).collect();
    let want_n: Vec<PContent> = want.iter().map(norm).collect();
    let paragraphs_ok = if c.porder == 0 {
        got_n == want_n
    } else {
        // keys may collide only when equal; lines-level key is a refinement of the comparator's key only for formatter None/identity
        let mut a = got_n.clone();
        let mut b = want_n.clone();
        a.sort();
        b.sort();
        a == b
    };
    if !paragraphs_ok {
        out.push(viol("content-kept", ctx(&format!("content {:?} expected {:?}", got, want))));
    } else {
        // order of entries inside paragraphs (when sorted, ties may permute)
        for gp in &got {
            let wp = want.iter().find(|w| norm(w) == norm(gp)).unwrap();
            let ok = match c.eorder {
                0 => gp == wp,
                1 => eq_up_to_ties(gp, wp, |e| e.0.clone()),
                _ => eq_up_to_ties(gp, wp, |e| e.clone()),
            };
            if !ok {
                out.push(viol("entry-order", ctx(&format!("paragraph {:?} expected order {:?}", gp, wp))));
            }
        }
        if c.porder != 0 {
            // requested paragraph order: non-decreasing w.r.t. the comparator on the value of A
            let keys: Vec<Option<String>> = got
                .iter()
                .map(|gp| {
                    // map back to the input paragraph to obtain the value the comparator saw
                    let wp_idx = want.iter().position(|w| norm(w) == norm(gp)).unwrap();
                    let _ = wp_idx;
                    let inp = doc.paras.iter().find(|ip| {
                        let e: PContent = ip.iter().map(|(k, v)| (k.clone(), expected_lines(v, c))).collect();
                        norm(&e) == norm(gp)
                    });
                    inp.and_then(|ip| ip.iter().find(|(k, _)| k == "A").map(|(_, v)| v.clone()))
                })
                .collect();
            let sorted = keys.windows(2).all(|w| if c.porder == 1 { w[0] <= w[1] } else { w[0] >= w[1] });
            if !sorted {
                out.push(viol("paragraph-order", ctx(&format!("sort keys in output order {:?}", keys))));
            }
            let _ = para_key;
        }
    }
    // (v) comments
    let sc = scan(&out_text);
    let lines: Vec<(usize, usize, &str)> = {
        let mut v = vec![];
        let mut off = 0;
        for l in out_text.split_inclusive('\n') {
            v.push((off, off + l.len(), l.strip_suffix('\n').unwrap_or(l)));
            off += l.len();
        }
        v
    };
    if out.is_empty() {
        for (ctext, anchor) in &doc.comments {
            let hits: Vec<&(usize, usize, &str)> = lines.iter().filter(|l| l.2 == ctext).collect();
            if hits.len() != 1 {
                out.push(viol("comment-kept-on-own-line", ctx(&format!("comment {:?} appears {} times as a whole line", ctext, hits.len()))));
                continue;
            }
            let (_cs, ce, _) = *hits[0];
            // the entry that follows (only comment lines in between)
            let mut following: Option<(usize, usize)> = None; // (para idx, entry idx)
            let mut pos = ce;
            for l in lines.iter().filter(|l| l.0 >= ce) {
                if l.2.starts_with('#') {
                    pos = l.1;
                    continue;
                }
                if l.2.is_empty() {
                    break;
                }
                for (pi, p) in sc.paras.iter().enumerate() {
                    for (ei, e) in p.entries.iter().enumerate() {
                        if e.start == l.0 {
                            following = Some((pi, ei));
                        }
                    }
                }
                break;
            }
            let _ = pos;
            let exp_field = |p: usize, f: usize| -> (String, Lines) { (doc.paras[p][f].0.clone(), expected_lines(&doc.paras[p][f].1, c)) };
            let exp_para = |p: usize| -> PContent { doc.paras[p].iter().map(|(k, v)| (k.clone(), expected_lines(v, c))).collect() };
            match anchor {
                Anchor::BeforeField(p, f) => {
                    // a comment in front of a paragraph's first field is equally "in front of the paragraph"
                    let ok = match following {
                        Some((pi, ei)) => {
                            got.get(pi).and_then(|gp| gp.get(ei)) == Some(&exp_field(*p, *f))
                                || (*f == 0 && ei == 0 && got.get(pi).map(|g| norm(g)) == Some(norm(&exp_para(*p))))
                        }
                        None => false,
                    };
                    if !ok {
                        out.push(viol("comment-in-front-of-same-field", ctx(&format!("comment {:?} should precede field {:?}", ctext, exp_field(*p, *f)))));
                    }
                }
                Anchor::BeforePara(p) => {
                    let ok = match following {
                        Some((pi, 0)) => got.get(pi).map(|g| norm(g)) == Some(norm(&exp_para(*p))),
                        _ => false,
                    };
                    if !ok {
                        out.push(viol("comment-in-front-of-same-paragraph", ctx(&format!("comment {:?} should precede paragraph {:?}", ctext, exp_para(*p)))));
                    }
                }
                Anchor::EndOfPara(p) => {
                    // inside the block of a paragraph equal to p, after its last entry
                    let ok = sc.paras.iter().enumerate().any(|(pi, ps)| {
                        ps.tail_points.contains(&ce) && got.get(pi).map(|g| norm(g)) == Some(norm(&exp_para(*p)))
                    });
                    if !ok {
                        out.push(viol("comment-stays-at-end-of-paragraph", ctx(&format!("comment {:?} should end paragraph {:?}", ctext, exp_para(*p)))));
                    }
                }
                Anchor::Trailing => {
                    let last_end = sc.paras.last().map(|p| p.entries.last().map(|e| e.end).unwrap_or(p.start)).unwrap_or(0);
                    if ce <= last_end {
                        out.push(viol("comment-stays-trailing", ctx(&format!("comment {:?} should follow all paragraphs", ctext))));
                    }
                }
            }
        }
    }
    // (vi) indentation of continuation lines
    for (pi, ps) in sc.paras.iter().enumerate() {
        for e in &ps.entries {
            let n = match c.indent {
                0 => 1,
                1 => 2,
                2 => 4,
                _ => e.name.len(),
            };
            for l in lines.iter().filter(|l| l.0 > e.start && l.1 <= e.end) {
                let ind = l.2.len() - l.2.trim_start_matches([' ', '\t']).len();
                if l.2.starts_with('#') {
                    continue;
                }
                if ind != n || !l.2[..ind].chars().all(|ch| ch == ' ') {
                    out.push(viol("continuation-indent", ctx(&format!("line {:?} of field {} (paragraph {}) is not indented by exactly {} spaces", l.2, e.name, pi, n))));
                }
            }
        }
    }
    // (vii) exactly one blank line between paragraphs
    for w in sc.paras.windows(2) {
        let between = &out_text[w[0].end..w[1].start];
        let blanks = between.split_inclusive('\n').filter(|l| l.trim_end_matches('\n').is_empty()).count();
        let others = between.split_inclusive('\n').filter(|l| !l.trim_end_matches('\n').is_empty() && !l.starts_with('#')).count();
        if blanks != 1 || others != 0 {
            out.push(viol("one-blank-line-between-paragraphs", ctx(&format!("between paragraphs: {:?}", between))));
        }
    }
    // (viii) idempotent: on the returned object and on its re-read text
    let again = wrap_doc(&result, c).to_string();
    if again != out_text {
        out.push(viol("idempotent", ctx(&format!("second application gives {:?}", again))));
    }
    let again2 = wrap_doc(&re, c).to_string();
    if again2 != out_text {
        out.push(viol("idempotent", ctx(&format!("reformatting the re-read output gives {:?}", again2))));
    }
    // paragraph- and entry-level entry points agree with the document-level one
    if c.porder == 0 {
        if let (Some(p0), Some(r0)) = (d.paragraphs().next(), result.paragraphs().next()) {
            let alone = wrap_para(&p0, c).to_string();
            if alone != r0.to_string() {
                out.push(viol("paragraph-entry-point", ctx(&format!("Paragraph::wrap_and_sort alone gives {:?}, inside the document {:?}", alone, r0.to_string()))));
            }
        }
    }
    if let Some((k, v)) = doc.paras.first().and_then(|p| p.first()) {
        if !v.is_empty() && !v.starts_with('\n') {
            let fv: Option<&dyn Fn(&str, &str) -> String> = match c.fmt {
                0 => None,
                1 => Some(&fmt_identity),
                2 => Some(&fmt_words),
                _ => Some(&fmt_indented),
            };
            let e = Entry::new(k, v).wrap_and_sort(indentation(c), c.iel, oneliner(c), fv).to_string();
            let p = wrap_para(&Paragraph::from(vec![(k.as_str(), v.as_str())]), &Cfg { eorder: 0, ..c.clone() }).to_string();
            if e != p {
                out.push(viol("entry-entry-point", ctx(&format!("Entry::wrap_and_sort gives {:?}, via a paragraph {:?}", e, p))));
            }
        }
    }
    // documents of another provenance: the same content assembled from (name, value) pairs, and the parsed document with
    // every field set again to its own value (entries rebuilt by the editor); same content, strict, idempotent
    if c.porder == 0 && c.eorder == 0 && out.is_empty() {
        let built: Deb822 = doc
            .paras
            .iter()
            .filter(|p| !p.is_empty() && p.iter().all(|(_, v)| !v.is_empty() && !v.starts_with('\n') && v.lines().all(|l| !l.starts_with('#'))))
            .map(|p| p.iter().map(|(k, v)| (k.as_str(), v.as_str())).collect::<Paragraph>())
            .collect();
        let reset = Deb822::from_str(text).ok();
        if let Some(r) = &reset {
            for (mut p, m) in r.paragraphs().zip(doc.paras.iter()) {
                let mut seen: Vec<&str> = vec![];
                for (k, v) in m {
                    // set() touches the first field of a name: only names that occur once, values the editor accepts
                    if m.iter().filter(|(k2, _)| k2 == k).count() == 1 && !v.is_empty() && !v.starts_with('\n') && v.lines().all(|l| !l.starts_with('#')) && !seen.contains(&k.as_str()) {
                        p.set(k, v);
                        seen.push(k);
                    }
                }
            }
        }
        for (label, dv) in [("assembled from pairs", Some(built)), ("every field set again", reset)] {
            let Some(dv) = dv else { continue };
            let before = content_of(&dv);
            let r = wrap_doc(&dv, c);
            let t = r.to_string();
            let ctxv = |what: &str| format!("input {:?} ({}: {:?}) cfg {:?} output {:?}: {}", text, label, dv.to_string(), c, t, what);
            match Deb822::from_str(&t) {
                Err(e) => out.push(viol("result-parses", ctxv(&e.to_string().replace('\n', "; ")))),
                Ok(re) => {
                    let want: Vec<PContent> = before.iter().map(|p| p.iter().map(|(k, l)| (k.clone(), expected_lines(&l.join("\n"), c))).collect()).collect();
                    if content_of(&re) != want {
                        out.push(viol("content-kept", ctxv(&format!("content {:?} expected {:?}", content_of(&re), want))));
                    }
                    let again = wrap_doc(&r, c).to_string();
                    if again != t {
                        out.push(viol("idempotent", ctxv(&format!("second application gives {:?}", again))));
                    }
                }
            }
        }
    }
    // the control-file wrapper on a document without control-specific field names is the deb822-level reformatting with
    // the identity formatter and a paragraph order in which all paragraphs tie
    if c.porder == 0 && c.eorder == 0 && c.fmt == 1 {
        use debian_control::lossless::control::Control;
        if let Ok(mut control) = Control::from_str(text) {
            let special = doc.paras.iter().flatten().any(|(k, _)| k == "Source" || k == "Package" || k == "Uploaders" || REL_FIELDS.contains(&k.as_str()));
            if !special {
                control.wrap_and_sort(indentation(c), c.iel, oneliner(c));
                let ctl = control.as_deb822().to_string();
                if ctl != out_text {
                    out.push(viol("control-wrapper-agrees", ctx(&format!("Control::wrap_and_sort gives {:?}", ctl))));
                }
            }
        }
    }
    // Deb822::wrap_and_sort without a paragraph wrapper: paragraphs are only (re)ordered and separated
    if c.indent == 0 && !c.iel && c.oneliner == 0 && c.eorder == 0 && c.fmt == 0 {
        let sp: Option<&dyn Fn(&Paragraph, &Paragraph) -> Ordering> = match c.porder {
            0 => None,
            1 => Some(&pcmp),
            _ => Some(&pcmp_rev),
        };
        let r2 = d.wrap_and_sort(sp, None);
        let t2 = r2.to_string();
        let ctx2 = |what: &str| format!("input {:?} paragraph order {} no paragraph wrapper output {:?}: {}", text, c.porder, t2, what);
        match Deb822::from_str(&t2) {
            Err(e) => out.push(viol("result-parses", ctx2(&e.to_string().replace('\n', "; ")))),
            Ok(re2) => {
                let got: Vec<Vec<(String, String)>> = re2.paragraphs().map(|p| p.items().collect()).collect();
                let mut want: Vec<(Option<String>, Vec<(String, String)>)> =
                    d.paragraphs().map(|p| (p.get("A"), p.items().collect::<Vec<_>>())).filter(|(_, i)| !i.is_empty()).collect();
                match c.porder {
                    1 => want.sort_by(|a, b| a.0.cmp(&b.0)),
                    2 => want.sort_by(|a, b| b.0.cmp(&a.0)),
                    _ => {}
                }
                let keys: Vec<Option<String>> = got.iter().map(|p| p.iter().find(|(k, _)| k == "A").map(|(_, v)| v.clone())).collect();
                let ordered = match c.porder {
                    0 => got == want.iter().map(|w| w.1.clone()).collect::<Vec<_>>(),
                    1 => keys.windows(2).all(|w| w[0] <= w[1]),
                    _ => keys.windows(2).all(|w| w[0] >= w[1]),
                };
                let (mut a, mut b) = (got.clone(), want.iter().map(|w| w.1.clone()).collect::<Vec<_>>());
                a.sort();
                b.sort();
                if a != b || !ordered {
                    out.push(viol("content-kept", ctx2(&format!("paragraphs {:?}, expected (in order) {:?}", got, want))));
                }
                for (ctext, _) in &doc.comments {
                    let n = t2.lines().filter(|l| l == ctext).count();
                    if n != 1 {
                        out.push(viol("comment-kept-on-own-line", ctx2(&format!("comment {:?} appears {} times as a whole line", ctext, n))));
                    }
                }
                let sc2 = scan(&t2);
                for w in sc2.paras.windows(2) {
                    let between = &t2[w[0].end..w[1].start];
                    let blanks = between.split_inclusive('\n').filter(|l| l.trim_end_matches('\n').is_empty()).count();
                    if blanks != 1 {
                        out.push(viol("one-blank-line-between-paragraphs", ctx2(&format!("between paragraphs: {:?}", between))));
                    }
                }
                let again = r2.wrap_and_sort(sp, None).to_string();
                if again != t2 {
                    out.push(viol("idempotent", ctx2(&format!("second application gives {:?}", again))));
                }
            }
        }
    }
    out
}

/// `text` with an indented comment line in front of line `at` (only where the previous line belongs to a field, so that
/// the comment sits inside or at the end of that field's value); None elsewhere
fn with_inner_comment(text: &str, at: usize) -> Option<String> {
    let lines: Vec<&str> = text.split_inclusive('\n').collect();
    if at == 0 || at > lines.len() {
        return None;
    }
    let prev = lines[at - 1];
    if !prev.ends_with('\n') || prev.trim().is_empty() || prev.starts_with('#') {
        return None;
    }
    let mut out = String::new();
    for (i, l) in lines.iter().enumerate() {
        if i == at {
            out.push_str(" # ic\n");
        }
        out.push_str(l);
    }
    if at == lines.len() {
        out.push_str(" # ic\n");
    }
    Some(out)
}

/// documents without any paragraph
pub const NO_PARA_TEXTS: [&str; 8] = ["", "# c\n", "\n\n", "# c\n\n# d\n", "\n# c\n", "A: v\n # c\n w\n", "A:\n # c\n w\n", "A: v\n w\n # c\nB: x\n"];

/// live documents that contain a paragraph WITHOUT fields (which no text can express): (text, how) with how = index of the
/// paragraph whose fields are all removed, or 100 = add_paragraph() at the end, 101 = insert_paragraph(0)
pub const EMPTIED: [(&str, usize); 6] = [("A: 1\n\nB: 2\n\nC: 3\n", 1), ("A: 1\n\nB: 2\n", 0), ("A: 1\n\nB: 2\n", 1), ("A: 1\n# c\n", 100), ("# l\nA: 1\n x\n\nB: 2", 101), ("A: 1\n", 0)];

/// documents in which the sort keys TIE: identical paragraphs, paragraphs equal under the paragraph order but different
/// otherwise (both input orders), a paragraph without the key field between two with it, repeated field names (equal under
/// the by-name entry orders) with different values in both orders
pub const TIE_TEXTS: [&str; 16] = [
    "A: 1\n\nA: 1\n",
    "A: 1\nB: x\n\nA: 1\nB: y\n",
    "A: 1\nB: y\n\nA: 1\nB: x\n",
    "A: 1\n\nB: 2\n\nA: 1\nC: 3\n",
    "B: 2\n\nC: 3\n\nB: 1\n",
    "A: 2\nA: 1\n",
    "B: 1\nA: 1\nB: 0\n",
    "A: 1\nA: 1\n\nA: 1\n",
    // three distinct names in every order (an entry comparator then has more than one inversion to undo)
    "A: 1\nB: 2\nC: 3\n",
    "A: 1\nC: 3\nB: 2\n",
    "B: 2\nA: 1\nC: 3\n",
    "B: 2\nC: 3\nA: 1\n",
    "C: 3\nA: 1\nB: 2\n",
    "C: 3\nB: 2\nA: 1\n",
    // three paragraphs in two orders
    "A: 3\n\nA: 1\n\nA: 2\n",
    "A: 2\n\nA: 3\n\nA: 1\n",
];
pub fn n_fixed_texts() -> usize {
    NO_PARA_TEXTS.len() + EMPTIED.len() + TIE_TEXTS.len()
}

fn check_fixed(ti: usize, c: &Cfg) -> Vec<Viol> {
    let mut out = vec![];
    if ti >= NO_PARA_TEXTS.len() + EMPTIED.len() {
        let Some(t) = TIE_TEXTS.get(ti - NO_PARA_TEXTS.len() - EMPTIED.len()) else { return out };
        let Ok(d) = Deb822::from_str(t) else { return out };
        return check_text(t, &d, c);
    }
    let (text, d) = if ti < NO_PARA_TEXTS.len() {
        let Ok(d) = Deb822::from_str(NO_PARA_TEXTS[ti]) else { return out };
        (NO_PARA_TEXTS[ti], d)
    } else {
        let Some((t, how)) = EMPTIED.get(ti - NO_PARA_TEXTS.len()) else { return out };
        let Ok(mut d) = Deb822::from_str(t) else { return out };
        match how {
            100 => {
                d.add_paragraph();
            }
            101 => {
                d.insert_paragraph(0);
            }
            i => {
                if let Some(mut p) = d.paragraphs().nth(*i) {
                    let keys: Vec<String> = p.keys().collect();
                    for k in keys {
                        p.remove(&k);
                    }
                }
            }
        }
        (*t, d)
    };
    out.extend(check_text(text, &d, c));
    out
}

/// Reformat `d` (the document read from or derived from `text`) and check it against its own accessors: parses, same
/// content, live object == re-read, comments kept on lines of their own, one blank line between paragraphs, idempotent.
fn check_text(text: &str, d: &Deb822, c: &Cfg) -> Vec<Viol> {
    let mut out = vec![];
    let result = wrap_doc(d, c);
    let out_text = result.to_string();
    let ctx = |what: &str| format!("input {:?} cfg {:?} output {:?}: {}", text, c, out_text, what);
    match Deb822::from_str(&out_text) {
        Err(e) => out.push(viol("result-parses", ctx(&e.to_string().replace('\n', "; ")))),
        Ok(re) => {
            // same paragraphs and fields (as multisets: the settings may reorder them), same non-blank value lines
            let norm = |x: &Deb822, fmt: bool| -> Vec<PContent> {
                let mut ps: Vec<PContent> = x
                    .paragraphs()
                    .map(|p| {
                        let mut q: PContent = p.items().map(|(k, v)| (k, if fmt { expected_lines(&v, c) } else { vlines(&v) })).collect();
                        q.sort();
                        q
                    })
                    .filter(|q| !q.is_empty())
                    .collect();
                ps.sort();
                ps
            };
            if norm(&re, false) != norm(d, true) {
                out.push(viol("content-kept", ctx(&format!("content {:?}, expected {:?}", norm(&re, false), norm(d, true)))));
            }
            // the returned object reports what its printed text re-reads to
            let live: Vec<Vec<(String, String)>> = result.paragraphs().map(|p| p.items().collect()).collect();
            let reread: Vec<Vec<(String, String)>> = re.paragraphs().map(|p| p.items().collect()).collect();
            if live != reread {
                out.push(viol("live-equals-reread", ctx(&format!("live {:?} re-read {:?}", live, reread))));
            }
        }
    }
    for cl in text.lines().filter(|l| l.starts_with('#')) {
        if out_text.lines().filter(|l| *l == cl).count() != 1 {
            out.push(viol("comment-kept-on-own-line", ctx(&format!("comment {:?}", cl))));
        }
    }
    // comment lines inside a value (indented) stay comment lines of their own, whatever their new indentation
    for cl in text.lines().filter(|l| l.starts_with([' ', '\t']) && l.trim_start().starts_with('#')) {
        if out_text.lines().filter(|l| l.trim() == cl.trim()).count() != 1 {
            out.push(viol("comment-kept-on-own-line", ctx(&format!("comment {:?} inside a value", cl.trim()))));
        }
    }
    // exactly one blank line between paragraphs, none doubled
    let sc = scan(&out_text);
    for w in sc.paras.windows(2) {
        let between = &out_text[w[0].end..w[1].start];
        let blanks = between.split_inclusive('\n').filter(|l| l.trim_end_matches('\n').is_empty()).count();
        if blanks != 1 {
            out.push(viol("one-blank-line-between-paragraphs", ctx(&format!("between paragraphs: {:?}", between))));
        }
    }
    let again = wrap_doc(&result, c).to_string();
    if again != out_text {
        out.push(viol("idempotent", ctx(&format!("second application gives {:?}", again))));
    }
    if let Ok(re) = Deb822::from_str(&out_text) {
        let again2 = wrap_doc(&re, c).to_string();
        if again2 != out_text {
            out.push(viol("idempotent", ctx(&format!("reformatting the re-read output gives {:?}", again2))));
        }
    }
    out
}

// ---- control wrappers -------------------------------------------------------------------------

/// Policy 7.1 / 5.6.10 (written from Policy, not from the implementation's list)
const REL_FIELDS: [&str; 16] = [
    "Build-Depends", "Build-Depends-Indep", "Build-Depends-Arch", "Build-Conflicts", "Build-Conflicts-Indep", "Build-Conflicts-Arch", "Pre-Depends", "Depends",
    "Recommends", "Suggests", "Enhances", "Breaks", "Conflicts", "Provides", "Replaces", "Built-Using",
];

fn squash(s: &str) -> String {
    s.chars().filter(|c| !c.is_whitespace()).collect()
}
/// whitespace-insensitive, order-insensitive reading of a relation field: multiset of multisets of atoms
fn rel_atoms(v: &str) -> Vec<Vec<String>> {
    let mut es: Vec<Vec<String>> = v
        .split(',')
        .map(|e| {
            let mut a: Vec<String> = e.split('|').map(squash).filter(|x| !x.is_empty()).collect();
            a.sort();
            a
        })
        .filter(|e| !e.is_empty())
        .collect();
    es.sort();
    es
}
fn control_value_norm(k: &str, v: &str) -> Vec<Vec<String>> {
    if REL_FIELDS.contains(&k) {
        rel_atoms(v)
    } else if k == "Uploaders" {
        vec![v.split(',').map(|x| x.trim().to_string()).collect()]
    } else {
        vec![vlines(v)]
    }
}

/// The control-file formatter written from its documentation: Uploaders one per line, relationship fields normalised.
fn ref_control_format(name: &str, value: &str) -> String {
    use debian_control::lossless::relations::Relations;
    if name == "Uploaders" {
        value.split(',').map(|s| s.trim().to_string()).collect::<Vec<_>>().join(",\n")
    } else if REL_FIELDS.contains(&name) {
        let (r, errs) = Relations::parse_relaxed(value, true);
        if errs.is_empty() {
            r.wrap_and_sort().to_string()
        } else {
            value.to_string()
        }
    } else {
        value.to_string()
    }
}
fn ref_control_order(a: &Paragraph, b: &Paragraph) -> Ordering {
    // source paragraphs first (by name), then binary paragraphs by name
    let key = |p: &Paragraph| (p.get("Source").is_none(), p.get("Source"), p.get("Package"));
    key(a).cmp(&key(b))
}

fn check_control(ti: usize, c: &Cfg, via: usize) -> Vec<Viol> {
    use debian_control::lossless::control::Control;
    let Some(text) = control_text(ti) else { return vec![] };
    let text = text.as_str();
    let mut out = vec![];
    // differential: the wrappers are the deb822-level reformatting (whose layout guarantees the document cases check)
    // with the control formatter and the control paragraph order plugged in
    if let (Ok(mut control), Ok(d)) = (Control::from_str(text), Deb822::from_str(text)) {
        let wp = |p: &Paragraph| p.wrap_and_sort(indentation(c), c.iel, oneliner(c), None, Some(&ref_control_format));
        if via == 0 {
            control.wrap_and_sort(indentation(c), c.iel, oneliner(c));
            let want = d.wrap_and_sort(Some(&ref_control_order), Some(&wp)).to_string();
            let got = control.as_deb822().to_string();
            if got != want {
                out.push(viol("control-wrapper-agrees", format!("control input {:?} cfg {:?}: Control::wrap_and_sort gives {:?}, the deb822-level reformatting with the documented formatter and order gives {:?}", text, c, got, want)));
            }
        } else {
            let mut got = vec![];
            if let Some(mut sp) = control.source() {
                sp.wrap_and_sort(indentation(c), c.iel, oneliner(c));
                got.push(sp.as_deb822().to_string());
            }
            for mut b in control.binaries() {
                b.wrap_and_sort(indentation(c), c.iel, oneliner(c));
                got.push(b.as_deb822().to_string());
            }
            let mut want = vec![];
            if let Some(p) = d.paragraphs().find(|p| p.get("Source").is_some()) {
                want.push(wp(&p).to_string());
            }
            for p in d.paragraphs().filter(|p| p.get("Package").is_some()) {
                want.push(wp(&p).to_string());
            }
            if got != want {
                out.push(viol("control-wrapper-agrees", format!("control input {:?} cfg {:?}: Source/Binary::wrap_and_sort give {:?}, Paragraph::wrap_and_sort with the documented formatter gives {:?}", text, c, got, want)));
            }
        }
    }
    let Ok(mut control) = Control::from_str(text) else {
        return out;
    };
    let input: Vec<Vec<(String, String)>> = control.as_deb822().paragraphs().map(|p| p.items().collect()).collect();
    let apply = |control: &mut Control| match via {
        0 => control.wrap_and_sort(indentation(c), c.iel, oneliner(c)),
        _ => {
            if let Some(mut s) = control.source() {
                s.wrap_and_sort(indentation(c), c.iel, oneliner(c));
            }
            for mut b in control.binaries() {
                b.wrap_and_sort(indentation(c), c.iel, oneliner(c));
            }
        }
    };
    apply(&mut control);
    let out_text = control.as_deb822().to_string();
    let ctx = |what: &str| format!("control input {:?} cfg {:?} via {} output {:?}: {}", text, c, if via == 0 { "Control" } else { "Source/Binary" }, out_text, what);
    if via == 1 {
        // the paragraph wrappers replace their own handle only; nothing to compare at document level
        // except that the wrappers' own text parses and keeps content
        let mut paras = vec![];
        if let Ok(ctl2) = Control::from_str(text) {
            if let Some(mut s) = ctl2.source() {
                s.wrap_and_sort(indentation(c), c.iel, oneliner(c));
                paras.push((s.as_deb822().items().collect::<Vec<_>>(), s.as_deb822().to_string()));
            }
            for mut b in ctl2.binaries() {
                b.wrap_and_sort(indentation(c), c.iel, oneliner(c));
                paras.push((b.as_deb822().items().collect::<Vec<_>>(), b.as_deb822().to_string()));
            }
        }
        // the input paragraphs the wrappers were taken from, in the same order (first with Source, then every one with Package)
        let mut sources_of: Vec<&Vec<(String, String)>> = vec![];
        if let Some(p) = input.iter().find(|p| p.iter().any(|(k, _)| k == "Source")) {
            sources_of.push(p);
        }
        sources_of.extend(input.iter().filter(|p| p.iter().any(|(k, _)| k == "Package")));
        for (pidx, (items, ptext)) in paras.into_iter().enumerate() {
            match Deb822::from_str(&ptext) {
                Ok(re) => {
                    let rr: Vec<(String, String)> = re.paragraphs().next().map(|p| p.items().collect()).unwrap_or_default();
                    if rr != items {
                        out.push(viol("live-equals-reread", ctx(&format!("paragraph wrapper: live {:?} re-read {:?}", items, rr))));
                    }
                    if let Some(inp) = sources_of.get(pidx) {
                        let a: Vec<_> = inp.iter().map(|(k, v)| (k.clone(), control_value_norm(k, v))).collect();
                        let b: Vec<_> = rr.iter().map(|(k, v)| (k.clone(), control_value_norm(k, v))).collect();
                        if a != b {
                            out.push(viol("content-kept", ctx(&format!("paragraph wrapper changed content: {:?} -> {:?}", a, b))));
                        }
                    }
                }
                Err(e) => out.push(viol("result-parses", ctx(&format!("paragraph wrapper output {:?}: {}", ptext, e.to_string().replace('\n', "; "))))),
            }
        }
        return out;
    }
    let re = match Deb822::from_str(&out_text) {
        Ok(r) => r,
        Err(e) => {
            out.push(viol("result-parses", ctx(&e.to_string().replace('\n', "; "))));
            return out;
        }
    };
    let live: Vec<Vec<(String, String)>> = control.as_deb822().paragraphs().map(|p| p.items().collect()).collect();
    let reread: Vec<Vec<(String, String)>> = re.paragraphs().map(|p| p.items().collect()).collect();
    if live != reread {
        out.push(viol("live-equals-reread", ctx(&format!("live {:?} re-read {:?}", live, reread))));
    }
    let norm = |ps: &Vec<Vec<(String, String)>>| -> Vec<Vec<(String, Vec<Vec<String>>)>> {
        ps.iter().map(|p| p.iter().map(|(k, v)| (k.clone(), control_value_norm(k, v))).collect()).collect()
    };
    let (mut a, mut b) = (norm(&input), norm(&reread));
    // requested order: source first, then packages by name
    let names: Vec<(bool, String)> = reread
        .iter()
        .map(|p| {
            let src = p.iter().find(|(k, _)| k == "Source");
            match src {
                Some(s) => (false, s.1.clone()),
                None => (true, p.iter().find(|(k, _)| k == "Package").map(|x| x.1.clone()).unwrap_or_default()),
            }
        })
        .collect();
    if !names.windows(2).all(|w| w[0] <= w[1]) {
        out.push(viol("paragraph-order", ctx(&format!("paragraph order {:?}", names))));
    }
    a.sort();
    b.sort();
    if a != b {
        out.push(viol("content-kept", ctx(&format!("content changed: {:?} -> {:?}", a, b))));
    }
    // comments all kept on their own line
    for cl in text.lines().filter(|l| l.starts_with('#')) {
        if out_text.lines().filter(|l| *l == cl).count() != 1 {
            out.push(viol("comment-kept-on-own-line", ctx(&format!("comment {:?}", cl))));
        }
    }
    // idempotent
    apply(&mut control);
    let again = control.as_deb822().to_string();
    if again != out_text {
        out.push(viol("idempotent", ctx(&format!("second application gives {:?}", again))));
    }
    out
}

pub struct C07;

fn c07_skels() -> Vec<Skel> {
    vec![Skel { paras: 1, fields: 1 }, Skel { paras: 1, fields: 2 }, Skel { paras: 2, fields: 1 }, Skel { paras: 2, fields: 2 }, Skel { paras: 3, fields: 1 }]
}
fn c07_k(t: Tier, sk: Skel) -> usize {
    match t {
        Tier::Quick => {
            if sk.paras * sk.fields == 1 {
                2
            } else {
                1
            }
        }
        Tier::Thorough => {
            if sk.paras * sk.fields == 1 {
                3
            } else if sk.paras * sk.fields <= 2 {
                2
            } else {
                1
            }
        }
    }
}
/// shards: (skeleton index, first deviating slot or baseline) and one shard for the control texts
fn c07_shards() -> Vec<(usize, Option<usize>)> {
    let mut v = vec![];
    for (i, sk) in c07_skels().iter().enumerate() {
        v.push((i, None));
        for s in 0..menus(*sk).len() {
            v.push((i, Some(s)));
        }
    }
    v
}

impl Prop for C07 {
    type Case = C07Case;
    fn id(&self) -> &'static str {
        "C07"
    }
    fn level(&self) -> &'static str {
        "exploration"
    }
    fn rule(&self, _t: Tier) -> String {
        "documents: every layout vector with <= k deviations on 5 skeletons (values made unique per field; the final newline is a free dimension on top of the k deviations), crossed with the FULL product of 864 settings (minus the 240 that combine a line-restructuring formatter with a value-dependent comparator) (4 indentations x immediate_empty_line x 3 one-liner limits x 3 paragraph orders x 3 entry orders x 4 formatters); each case runs Deb822::wrap_and_sort (with Paragraph::wrap_and_sort plugged in), re-reads the result, applies it a second time and cross-checks the Paragraph- and Entry-level entry points; control wrappers: 12 control files (incl. Uploaders with a trailing comma / an empty item, an unterminated last field, extra blank lines) x 24 settings x {Control, Source/Binary}, and every ordered selection of 2 and 3 paragraphs out of 6 kinds (two source paragraphs, two binaries of the same name, another binary, a paragraph of neither kind: 150 files) x both empty-first-line settings; fixed documents x all settings: 8 without paragraphs / with comment lines inside values, 6 live ones with a field-less paragraph, 16 whose sort keys tie or that hold three names / paragraphs in every order; non-trivial = case whose document has a deviation or whose setting differs from the default".into()
    }
    fn bounds(&self, t: Tier) -> Value {
        let sk: Vec<Value> = c07_skels().iter().map(|s| json!({"skeleton": s, "k": c07_k(t, *s), "documents": kdev_count(&menus(*s), c07_k(t, *s))})).collect();
        json!({"skeletons": sk, "settings_per_document": 864, "control_texts": n_control_texts(), "control_settings": 24})
    }
    fn assumptions(&self) -> Vec<String> {
        vec![
            "comparators are restricted to ones that depend on field names and values only (as the statement requires); formatters are layout-insensitive so that the expected lines can be computed from the model".into(),
            "control wrappers: relation-valued fields are compared as whitespace-insensitive multisets of alternatives (their canonical form is C13's subject)".into(),
        ]
    }
    fn n_shards(&self, _t: Tier) -> usize {
        c07_shards().len() + 1
    }
    fn explore(&self, t: Tier, shard: usize, f: &mut dyn FnMut(&C07Case) -> Verdict) {
        let shards = c07_shards();
        if shard == shards.len() {
            for text in 0..n_control_texts() {
                // (the generated ordering texts: both empty-first-line settings, one indentation and width)
                let dims: [usize; 3] = if text < CONTROL_TEXTS.len() + CONTROL_EXTRA.len() { [4, 2, 3] } else { [1, 2, 1] };
                product(&dims, &mut |v| {
                    for via in 0..2 {
                        f(&C07Case::Control { text, cfg: Cfg { indent: v[0], iel: v[1] == 1, oneliner: v[2], porder: 0, eorder: 0, fmt: 0 }, via });
                    }
                });
            }
            // comment lines inside values: every k<=1 layout of the 1x2 and 2x1 skeletons, the comment in front of every line
            for sk in [Skel { paras: 1, fields: 2 }, Skel { paras: 2, fields: 1 }] {
                let m = menus(sk);
                let mut go = |v: &[usize]| {
                    if let Some(d) = render_opt(sk, v, true) {
                        let n = d.text.split_inclusive('\n').count();
                        for at in 1..=n {
                            if with_inner_comment(&d.text, at).map_or(false, |t| Deb822::from_str(&t).is_ok()) {
                                product(&cfg_menus(), &mut |cv| {
                                    let cfg = cfg_from(cv);
                                    // a field that holds a comment line is deliberately not handed to the formatter, so
                                    // only the formatters that leave the lines alone have a defined expectation here
                                    if cfg.fmt >= 2 {
                                        return;
                                    }
                                    f(&C07Case::InnerComment { doc: DocCase { skel: sk, v: v.to_vec(), junk: None, name_char: None }, at, cfg });
                                });
                            }
                        }
                    }
                };
                kdev_shard(&m, 1, None, &mut go);
                for i in 0..m.len() {
                    kdev_shard(&m, 1, Some(i), &mut go);
                }
            }
            for text in 0..n_fixed_texts() {
                product(&cfg_menus(), &mut |cv| {
                    f(&C07Case::Fixed { text, cfg: cfg_from(cv) });
                });
            }
            return;
        }
        let (si, first) = shards[shard];
        let sk = c07_skels()[si];
        let m = menus(sk);
        let last = m.len() - 1;
        kdev_shard(&m, c07_k(t, sk), first, &mut |v0| {
            // the final newline is a free dimension: every layout is reformatted with and without it (a vector that
            // already spends a deviation on that slot is the twin of one with fewer deviations and is skipped)
            if v0[last] != 0 {
                return;
            }
            for fin in 0..2 {
            let mut w = v0.to_vec();
            w[last] = fin;
            let v = &w[..];
            if render(sk, v).is_some() {
                let doc = DocCase { skel: sk, v: v.to_vec(), junk: None, name_char: None };
                product(&cfg_menus(), &mut |cv| {
                    let cfg = cfg_from(cv);
                    // a formatter that changes the value's line structure changes what a value-dependent comparator
                    // sees on the second pass; the statement's comparators depend on names and (unchanged) values only
                    if cfg.fmt >= 2 && (cfg.eorder == 2 || cfg.porder != 0) {
                        return;
                    }
                    f(&C07Case::Doc { doc: doc.clone(), cfg });
                });
            }
            }
        });
    }
    fn check(&self, c: &C07Case, st: &mut Stats) -> Vec<Viol> {
        let r = guard(1_000_000, || match c {
            C07Case::Doc { doc, cfg } => match render_opt(doc.skel, &doc.v, true) {
                Some(mut d) => {
                    // a comment directly after the last field belongs to that paragraph
                    for cm in d.comments.iter_mut() {
                        if cm.0 == "# t" && doc.v[doc.v.len() - 2] == 2 {
                            cm.1 = Anchor::EndOfPara(doc.skel.paras - 1);
                        }
                    }
                    check_doc(&d, cfg)
                }
                None => vec![],
            },
            C07Case::Control { text, cfg, via } => check_control(*text, cfg, *via),
            C07Case::Fixed { text, cfg } => check_fixed(*text, cfg),
            C07Case::InnerComment { doc, at, cfg } => match render_opt(doc.skel, &doc.v, true).and_then(|d| with_inner_comment(&d.text, *at)) {
                Some(text) => match Deb822::from_str(&text) {
                    Ok(d) => check_text(&text, &d, cfg),
                    Err(_) => vec![],
                },
                None => vec![],
            },
        });
        match r {
            Ok(vs) => {
                st.nontrivial += 1;
                if vs.is_empty() {
                    st.outcome("ok");
                }
                vs
            }
            Err(p) => {
                st.outcome("panic");
                vec![viol("panic", format!("{:?}: {}", c, panic_detail(&p)))]
            }
        }
    }
    fn shrinks(&self, c: &C07Case) -> Vec<C07Case> {
        let mut out = vec![];
        match c {
            C07Case::Doc { doc, cfg } => {
                for d in shrink_doc(doc) {
                    out.push(C07Case::Doc { doc: d, cfg: cfg.clone() });
                }
                let cur = [cfg.indent, cfg.iel as usize, cfg.oneliner, cfg.porder, cfg.eorder, cfg.fmt];
                for i in 0..cur.len() {
                    if cur[i] != 0 {
                        let mut v = cur;
                        v[i] = 0;
                        out.push(C07Case::Doc { doc: doc.clone(), cfg: cfg_from(&v) });
                    }
                }
            }
            C07Case::InnerComment { doc, at, cfg } => {
                let cur = [cfg.indent, cfg.iel as usize, cfg.oneliner, cfg.porder, cfg.eorder, cfg.fmt];
                for i in 0..cur.len() {
                    if cur[i] != 0 {
                        let mut v = cur;
                        v[i] = 0;
                        out.push(C07Case::InnerComment { doc: doc.clone(), at: *at, cfg: cfg_from(&v) });
                    }
                }
            }
            C07Case::Fixed { text, cfg } => {
                let cur = [cfg.indent, cfg.iel as usize, cfg.oneliner, cfg.porder, cfg.eorder, cfg.fmt];
                for i in 0..cur.len() {
                    if cur[i] != 0 {
                        let mut v = cur;
                        v[i] = 0;
                        out.push(C07Case::Fixed { text: *text, cfg: cfg_from(&v) });
                    }
                }
            }
            C07Case::Control { text, cfg, via } => {
                let cur = [cfg.indent, cfg.iel as usize, cfg.oneliner];
                for i in 0..cur.len() {
                    if cur[i] != 0 {
                        let mut v = cur;
                        v[i] = 0;
                        out.push(C07Case::Control { text: *text, cfg: Cfg { indent: v[0], iel: v[1] == 1, oneliner: v[2], porder: 0, eorder: 0, fmt: 0 }, via: *via });
                    }
                }
            }
        }
        out
    }
    fn snippet(&self, c: &C07Case, v: &Viol) -> String {
        format!("// C07 replay: case {}\n// clause {}: {}\n", serde_json::to_string(c).unwrap(), v.clause, v.detail.replace('\n', "\\n"))
    }
    fn required_outcomes(&self) -> Vec<&'static str> {
        vec!["ok"]
    }
}
