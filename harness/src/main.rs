mod core;
mod docgen;
mod kdev;
mod relgen;
mod props;
mod strings;
mod typed;
mod typed_tables;

use crate::core::*;

#[global_allocator]
static GLOBAL: CapAlloc = CapAlloc;

fn usage() -> ! {
    eprintln!("usage: verif <Cxx> [--tier quick|thorough] [--replay <file>] [--threads N]");
    std::process::exit(2)
}

fn dispatch<P: Prop>(p: P, cfg: &RunCfg, replay: &Option<String>) -> i32 {
    if let Ok(r) = std::env::var("VERIF_CRASH_EVIDENCE") {
        return crash_evidence(&p, cfg, &r);
    }
    match replay {
        Some(path) => replay_file(&p, path),
        None => run_prop(&p, cfg),
    }
}

fn main() {
    let args: Vec<String> = std::env::args().collect();
    if args.len() < 2 {
        usage();
    }
    let id = args[1].clone();
    let mut tier = match std::env::var("VERIF_TIER").as_deref() {
        Ok("thorough") => Tier::Thorough,
        _ => Tier::Quick,
    };
    let mut replay = None;
    let mut threads = std::thread::available_parallelism().map(|n| n.get()).unwrap_or(8).min(16);
    let mut i = 2;
    while i < args.len() {
        match args[i].as_str() {
            "--tier" => {
                i += 1;
                tier = match args.get(i).map(|s| s.as_str()) {
                    Some("quick") => Tier::Quick,
                    Some("thorough") => Tier::Thorough,
                    _ => usage(),
                };
            }
            "--replay" => {
                i += 1;
                replay = Some(args.get(i).cloned().unwrap_or_else(|| usage()));
            }
            "--threads" => {
                i += 1;
                threads = args.get(i).and_then(|s| s.parse().ok()).unwrap_or_else(|| usage());
            }
            _ => usage(),
        }
        i += 1;
    }
    let seed = std::env::var("VERIF_SEED").ok().and_then(|s| s.parse::<u64>().ok()).unwrap_or(0);
    let cfg = RunCfg { tier, seed, threads };
    install_panic_hook();
    let code = match id.as_str() {
        "C01" => dispatch(props::c01::C01, &cfg, &replay),
        "C02" => dispatch(props::c02::C02, &cfg, &replay),
        "C03" => dispatch(props::c03::C03, &cfg, &replay),
        "C04" => dispatch(props::c04::EditProp(props::c04::Which::C04, Default::default(), Default::default()), &cfg, &replay),
        "C05" => dispatch(props::c04::EditProp(props::c04::Which::C05, Default::default(), Default::default()), &cfg, &replay),
        "C06" => dispatch(props::c06::C06, &cfg, &replay),
        "C07" => dispatch(props::c07::C07, &cfg, &replay),
        "C08" => dispatch(props::c08::C08(Default::default()), &cfg, &replay),
        "C09" => dispatch(props::c09::C09, &cfg, &replay),
        "C10" => dispatch(props::c10::RelProp(props::c10::RWhich::C10), &cfg, &replay),
        "C16" => dispatch(props::c16::C16, &cfg, &replay),
        "C17" => dispatch(props::c17::C17, &cfg, &replay),
        "C20" => dispatch(props::c20::C20, &cfg, &replay),
        "C18" => dispatch(props::c18::C18, &cfg, &replay),
        "C19" => dispatch(props::c19::C19, &cfg, &replay),
        "C15" => dispatch(props::c15::C15, &cfg, &replay),
        "C14" => dispatch(props::c14::C14, &cfg, &replay),
        "C11" => dispatch(props::c11::C11(Default::default()), &cfg, &replay),
        "C12" => dispatch(props::c12::C12, &cfg, &replay),
        "C13" => dispatch(props::c10::RelProp(props::c10::RWhich::C13), &cfg, &replay),
        _ => {
            eprintln!("verif: unknown property {}", id);
            2
        }
    };
    std::process::exit(code);
}
