//! E2: k-deviation exhaustive enumeration.  A case is a choice vector over slots with finite
//! ordered menus (choice 0 = simplest).  For a bound k, *every* vector that differs from the
//! all-zero baseline in at most k slots is produced, exactly once.

/// Enumerate all vectors whose smallest deviating slot is `first` (None = the baseline only).
pub fn kdev_shard(menus: &[usize], k: usize, first: Option<usize>, f: &mut dyn FnMut(&[usize])) {
    let mut v = vec![0usize; menus.len()];
    match first {
        None => f(&v),
        Some(i) => {
            if k == 0 || i >= menus.len() {
                return;
            }
            for c in 1..menus[i] {
                v[i] = c;
                f(&v);
                rec(menus, k - 1, i + 1, &mut v, f);
            }
            v[i] = 0;
        }
    }
}

fn rec(menus: &[usize], k: usize, from: usize, v: &mut Vec<usize>, f: &mut dyn FnMut(&[usize])) {
    if k == 0 {
        return;
    }
    for i in from..menus.len() {
        for c in 1..menus[i] {
            v[i] = c;
            f(v);
            rec(menus, k - 1, i + 1, v, f);
        }
        v[i] = 0;
    }
}

/// Number of vectors with at most k deviations.
pub fn kdev_count(menus: &[usize], k: usize) -> u64 {
    // dp over slots: ways[j] = number of ways with exactly j deviations
    let mut ways = vec![0u64; k + 1];
    ways[0] = 1;
    for m in menus {
        for j in (1..=k).rev() {
            ways[j] += ways[j - 1] * (*m as u64 - 1);
        }
    }
    ways.iter().sum()
}

/// Full product enumeration (odometer), for small spaces.
pub fn product(menus: &[usize], f: &mut dyn FnMut(&[usize])) {
    if menus.iter().any(|m| *m == 0) {
        return;
    }
    let mut v = vec![0usize; menus.len()];
    loop {
        f(&v);
        let mut i = menus.len();
        loop {
            if i == 0 {
                return;
            }
            i -= 1;
            v[i] += 1;
            if v[i] < menus[i] {
                break;
            }
            v[i] = 0;
        }
    }
}
