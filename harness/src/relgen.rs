//! Generator of well-formed relationship fields with their intended reading (DESIGN 3/C10),
//! and readers that turn the implementation's lossless / lossy values into the same model.

use debian_control::lossless::relations as ll;
use debian_control::lossy as ly;
use debian_control::relations::BuildProfile;
use serde::{Deserialize, Serialize};

#[derive(Clone, Debug, PartialEq, Eq, PartialOrd, Ord, Serialize, Deserialize)]
pub struct MRel {
    pub name: String,
    pub archqual: Option<String>,
    /// (operator text, version text)
    pub version: Option<(String, String)>,
    /// architecture list; negated ones carry their '!' prefix
    pub archs: Option<Vec<String>>,
    /// profile groups; negated terms carry their '!' prefix
    pub profiles: Vec<Vec<String>>,
}

#[derive(Clone, Debug, PartialEq, Eq, Default)]
pub struct MField {
    pub entries: Vec<Vec<MRel>>,
    pub substvars: Vec<String>,
}

#[derive(Clone, Copy, Debug, PartialEq, Eq, Serialize, Deserialize)]
pub struct RSkel {
    pub entries: usize,
    pub alts: usize,
}

pub const NAMES: [&str; 3] = ["a", "lib-x+1.0", "0ad"];
pub const ARCHQUALS: [&str; 3] = ["", "any", "amd64"];
pub const OPS: [&str; 6] = ["", ">=", "<<", "<=", "=", ">>"];
/// every combination of epoch / plain or decorated upstream part / revision (the first three are the original menu)
pub const VERS: [&str; 11] = ["1", "1.0-1~rc1", "2:1.0", "1-1", "1:1", "1:1-1", "1.0~rc1+dfsg", "3:1.0~rc1+dfsg-2ubuntu1", "0:1.0", "1-2-3", "01.0-01"];
pub const ARCHS: [&[&str]; 8] = [&[], &["amd64"], &["amd64", "i386"], &["!amd64"], &["!amd64", "!i386"], &["linux-any", "any-i386"], &["amd64", "i386", "arm64"], &["!amd64", "!i386", "!arm64", "!mips"]];
pub const PROFILES: [&[&[&str]]; 8] = [&[], &[&["x"]], &[&["!x"]], &[&["x", "y"]], &[&["!x", "y"], &["z"]], &[&["x", "!y"]], &[&["!x", "!y", "z"]], &[&["x"], &["y", "!z"], &["!w"]]];
/// whitespace around ',' and '|' and at the field's start/end (the bare line break is what a folded control field
/// looks like once the value accessor has removed the indentation)
pub const SEP_WS: [&str; 7] = ["", " ", "  ", "\t", "\n ", " \n  ", "\n"];
/// same menu with the conventional single space first (after ',' and around '|')
pub const SEP_WS1: [&str; 7] = [" ", "", "  ", "\t", "\n ", " \n  ", "\n"];
/// whitespace between the parts of a relation
pub const PART_WS: [&str; 4] = [" ", "", "  ", "\t"];
/// whitespace between list items
pub const ITEM_WS: [&str; 5] = [" ", "  ", "\t", "\n", "\n "];
pub const KINDS: usize = 4; // entry, empty entry, substvar, a second substvar
pub const SUBSTVAR2: &str = "${misc:Pre-Depends}";
pub const SUBSTVAR: &str = "${a:B}";

pub const REL_SLOTS: usize = 13;
// name, archqual, op, version, archs, profiles, ws name-paren, ws op-version, ws before archs, ws before profiles, item ws,
// blank just inside the parentheses, blank just inside the [ ] and < > brackets
const REL_MENUS: [usize; REL_SLOTS] = [3, 3, 6, VERS.len(), ARCHS.len(), 8, 4, 3, 4, 4, 5, 2, 2];

/// Slot layout: [lead ws, trail ws, trailing comma] then per entry: [kind, ws before ',', ws after ','] + per alt: [ws before '|', ws after '|'] + relation slots
pub fn menus(sk: RSkel) -> Vec<usize> {
    let mut m = vec![SEP_WS.len(), SEP_WS.len(), 3];
    for _e in 0..sk.entries {
        m.extend([KINDS, SEP_WS.len(), SEP_WS.len()]);
        for _a in 0..sk.alts {
            m.extend([SEP_WS.len(), SEP_WS.len()]);
            m.extend(REL_MENUS);
        }
    }
    m
}

pub fn render_rel(v: &[usize], with_default_ws: bool) -> Option<(String, MRel)> {
    let (nm, aq, op, ver, ar, pr, w1, w2, w3, w4, iw, pin, lin) = (v[0], v[1], v[2], v[3], v[4], v[5], v[6], v[7], v[8], v[9], v[10], v[11], v[12]);
    let _ = with_default_ws;
    // inactive deviations
    if op == 0 && (ver != 0 || w1 != 0 || w2 != 0) {
        return None;
    }
    if ar == 0 && w3 != 0 {
        return None;
    }
    if pr == 0 && w4 != 0 {
        return None;
    }
    let multi_items = ARCHS[ar].len() > 1 || PROFILES[pr].iter().any(|g| g.len() > 1);
    if !multi_items && iw != 0 {
        return None;
    }
    if (op == 0 && pin != 0) || (ar == 0 && pr == 0 && lin != 0) {
        return None;
    }
    let (pi, li) = (["", " "][pin], ["", " "][lin]);
    let mut s = String::new();
    s.push_str(NAMES[nm]);
    if aq != 0 {
        s.push(':');
        s.push_str(ARCHQUALS[aq]);
    }
    if op != 0 {
        s.push_str(PART_WS[w1]);
        s.push('(');
        s.push_str(pi);
        s.push_str(OPS[op]);
        s.push_str([" ", "", "  "][w2]);
        s.push_str(VERS[ver]);
        s.push_str(pi);
        s.push(')');
    }
    if ar != 0 {
        s.push_str(PART_WS[w3]);
        s.push('[');
        s.push_str(li);
        s.push_str(&ARCHS[ar].join(ITEM_WS[iw]));
        s.push_str(li);
        s.push(']');
    }
    for (gi, g) in PROFILES[pr].iter().enumerate() {
        // between groups: the blank chosen in front of the first group when it is a wide one, else a single space
        s.push_str(if gi == 0 || w4 >= 2 { PART_WS[w4] } else { " " });
        s.push('<');
        s.push_str(li);
        s.push_str(&g.join(ITEM_WS[iw]));
        s.push_str(li);
        s.push('>');
    }
    let m = MRel {
        name: NAMES[nm].to_string(),
        archqual: if aq != 0 { Some(ARCHQUALS[aq].to_string()) } else { None },
        version: if op != 0 { Some((OPS[op].to_string(), VERS[ver].to_string())) } else { None },
        archs: if ar != 0 { Some(ARCHS[ar].iter().map(|x| x.to_string()).collect()) } else { None },
        profiles: PROFILES[pr].iter().map(|g| g.iter().map(|x| x.to_string()).collect()).collect(),
    };
    Some((s, m))
}

/// Render a field.  None when a slot deviates without effect.
pub fn render(sk: RSkel, v: &[usize], allow_substvar: bool) -> Option<(String, MField)> {
    if v.len() != menus(sk).len() {
        return None; // a vector recorded under an older slot layout (known-findings file)
    }
    let mut i = 0usize;
    let (lead, trail, tcomma) = (v[0], v[1], v[2]);
    i += 3;
    let mut text = String::new();
    let mut model = MField::default();
    text.push_str(SEP_WS[lead]);
    for e in 0..sk.entries {
        let (kind, wb, wa) = (v[i], v[i + 1], v[i + 2]);
        i += 3;
        if e == 0 {
            if wb != 0 || wa != 0 {
                return None;
            }
        } else {
            text.push_str(SEP_WS[wb]);
            text.push(',');
            text.push_str(SEP_WS1[wa]);
        }
        if kind >= 2 && !allow_substvar {
            return None;
        }
        let mut rels = vec![];
        for a in 0..sk.alts {
            let (pb, pa) = (v[i], v[i + 1]);
            i += 2;
            let rv = &v[i..i + REL_SLOTS];
            i += REL_SLOTS;
            if kind != 0 {
                // empty entry / substvar: relation slots are inactive
                if pb != 0 || pa != 0 || rv.iter().any(|x| *x != 0) {
                    return None;
                }
                continue;
            }
            if a == 0 {
                if pb != 0 || pa != 0 {
                    return None;
                }
            } else {
                // '|' needs whitespace-free or free placement; default " | "
                text.push_str(SEP_WS1[pb]);
                text.push('|');
                text.push_str(SEP_WS1[pa]);
            }
            let (rt, rm) = render_rel(rv, true)?;
            text.push_str(&rt);
            rels.push(rm);
        }
        match kind {
            0 => model.entries.push(rels),
            1 => {}
            2 => {
                text.push_str(SUBSTVAR);
                model.substvars.push(SUBSTVAR.to_string());
            }
            _ => {
                text.push_str(SUBSTVAR2);
                model.substvars.push(SUBSTVAR2.to_string());
            }
        }
    }
    match tcomma {
        0 => {}
        1 => text.push(','),
        _ => text.push_str(", "),
    }
    text.push_str(SEP_WS[trail]);
    Some((text, model))
}

pub fn skeletons() -> Vec<RSkel> {
    let mut v = vec![];
    for entries in 1..=3 {
        for alts in 1..=3 {
            v.push(RSkel { entries, alts });
        }
    }
    v
}

// ---- readers ------------------------------------------------------------------------------------

pub fn profile_str(p: &BuildProfile) -> String {
    match p {
        BuildProfile::Enabled(s) => s.clone(),
        BuildProfile::Disabled(s) => format!("!{}", s),
    }
}

pub fn read_ll_rel(r: &ll::Relation) -> MRel {
    MRel {
        name: r.name(),
        archqual: r.archqual(),
        version: r.version().map(|(c, v)| (c.to_string(), v.to_string())),
        archs: r.architectures().map(|a| a.collect()),
        profiles: r.profiles().map(|g| g.iter().map(profile_str).collect()).collect(),
    }
}

pub fn read_ll(r: &ll::Relations) -> MField {
    MField {
        entries: r.entries().map(|e| e.relations().map(|r| read_ll_rel(&r)).collect()).collect(),
        substvars: r.substvars().collect(),
    }
}

pub fn read_ly_rel(r: &ly::Relation) -> MRel {
    MRel {
        name: r.name.clone(),
        archqual: r.archqual.clone(),
        version: r.version.as_ref().map(|(c, v)| (c.to_string(), v.to_string())),
        archs: r.architectures.clone(),
        profiles: r.profiles.iter().map(|g| g.iter().map(profile_str).collect()).collect(),
    }
}

pub fn read_ly(r: &ly::Relations) -> MField {
    MField { entries: r.0.iter().map(|e| e.iter().map(read_ly_rel).collect()).collect(), substvars: vec![] }
}

/// Canonical single-line rendering of a model relation (Policy 7.1 form used by wrap-and-sort).
pub fn canon_rel(m: &MRel) -> String {
    let mut s = m.name.clone();
    if let Some(q) = &m.archqual {
        s.push(':');
        s.push_str(q);
    }
    if let Some((op, v)) = &m.version {
        s.push_str(&format!(" ({} {})", op, v));
    }
    if let Some(a) = &m.archs {
        s.push_str(&format!(" [{}]", a.join(" ")));
    }
    for g in &m.profiles {
        s.push_str(&format!(" <{}>", g.join(" ")));
    }
    s
}
