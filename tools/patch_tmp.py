import re
# ---- C14: all profile-group shapes (1..3 terms, every negation pattern), up to 2 groups
p = '/verif/harness/src/props/c14.rs'
s = open(p).read()
s = s.replace('const PROFS: [&[&[&str]]; 4] = [&[], &[&["x"]], &[&["!x", "y"]], &[&["x"], &["!y", "z"]]];\n',
'''/// every group shape: 1..3 terms (names x, y, z in that order), every negation pattern -> 14 shapes;
/// profile lists: none, one group (14), two groups (first from 14, second from 4 representative shapes)
fn group_shapes() -> Vec<Vec<String>> {
    let names = ["x", "y", "z"];
    let mut out = vec![];
    for n in 1..=3usize {
        for mask in 0..(1u32 << n) {
            out.push((0..n).map(|i| if mask & (1 << i) != 0 { format!("!{}", names[i]) } else { names[i].to_string() }).collect());
        }
    }
    out
}
fn profs() -> Vec<Vec<Vec<String>>> {
    let g = group_shapes();
    let mut out: Vec<Vec<Vec<String>>> = vec![vec![]];
    for a in &g {
        out.push(vec![a.clone()]);
    }
    for a in &g {
        for b in [&g[0], &g[1], &g[3], &g[12]] {
            out.push(vec![a.clone(), b.clone()]);
        }
    }
    out
}
''')
s = s.replace('[NAMES14.len(), QUALS.len(), VERSIONS.len(), ARCHS14.len(), PROFS.len()]', '[NAMES14.len(), QUALS.len(), VERSIONS.len(), ARCHS14.len(), profs().len()]')
s = s.replace('''    r.profiles = PROFS[v[4]]
        .iter()
        .map(|g| g.iter().map(|t| BuildProfile::from_str(t).unwrap()).collect())
        .collect();''', '''    r.profiles = profs()[v[4]]
        .iter()
        .map(|g| g.iter().map(|t| BuildProfile::from_str(t).unwrap()).collect())
        .collect();''')
# subset indices for profiles: pick later-negated and 3-term shapes
s = s.replace('''        [0, 0, 0, 0, 1],
        [0, 0, 0, 0, 2],
        [0, 0, 0, 0, 3],
        [1, 1, 1, 3, 3],
        [1, 1, 2, 5, 2],''', '''        [0, 0, 0, 0, 1],
        [0, 0, 0, 0, 5],
        [0, 0, 0, 0, 14],
        [1, 1, 1, 3, 20],
        [1, 1, 2, 5, 9],''')
s = s.replace('x 4 profile-group shapes (720 values)', 'x 71 profile lists (no group; every one-group shape of 1-3 terms with every negation pattern; two groups) (5112 values)')
open(p, 'w').write(s)

# ---- C08: more canonical values
p = '/verif/harness/src/props/c08.rs'
s = open(p).read()
s = s.replace('pub const VALUES8: [&str; 13] = ["", "v", "v w  ", "é", "a:b", "a #b", ":x", "#x", "v\\nw", "\\nv", "\\nv\\nw", "v\\n.\\nw", "v\\nw:x"];',
 'pub const VALUES8: [&str; 16] = ["", "v", "v w  ", "é", "a:b", "a #b", ":x", "#x", "v\\nw", "\\nv", "\\nv\\nw", "v\\n.\\nw", "v\\nw:x", "v  \\nw", "v\\nw\\t", "é\\u{3000}\\nw  \\nx"];')
s = s.replace('3 names x 13 canonical values', '3 names x 16 canonical values')
open(p, 'w').write(s)

# ---- C12: alternatives on the SAME package
p = '/verif/harness/src/props/c12.rs'
s = open(p).read()
s = s.replace('''    /// AND/OR nesting: per entry, per alternative: 0 satisfied, 1 version mismatch, 2 absent
    Nest { entries: Vec<Vec<u8>> },''', '''    /// AND/OR nesting: per entry, per alternative: 0 satisfied, 1 version mismatch, 2 absent
    Nest { entries: Vec<Vec<u8>> },
    /// one entry whose alternatives all name the SAME package: (operator index, required version index) each;
    /// installed version index (POOL.len() = absent); then a second entry on another, installed package
    SamePkg { alts: Vec<(usize, usize)>, inst: usize },''')
s = s.replace('''fn check_nest(entries: &[Vec<u8>]) -> Vec<Viol> {''', '''const SAME_REQ: [usize; 3] = [0, 2, 4];
fn check_same(alts: &[(usize, usize)], inst: usize) -> Vec<Viol> {
    let mut out = vec![];
    let installed: Option<Version> = POOL.get(inst).map(|v| v.parse().unwrap());
    let inst_idx = if inst < POOL.len() { Some(inst) } else { None };
    let mut map: HashMap<String, Version> = HashMap::new();
    if let Some(v) = &installed {
        map.insert("pkg".into(), v.clone());
    }
    map.insert("other".into(), "1".parse().unwrap());
    let text = format!(
        "{}, other",
        alts.iter().map(|(op, req)| if *op == 0 { "pkg".to_string() } else { format!("pkg ({} {})", OPS12[*op], POOL[*req]) }).collect::<Vec<_>>().join(" | ")
    );
    let want = alts.iter().any(|(op, req)| reference_cell(*op, *req, inst_idx));
    let closure = |name: &str| -> Option<Version> { map.get(name).cloned() };
    let got_ll = ll::Relations::from_str(&text).unwrap().satisfied_by(closure);
    let got_ly = ly::Relations::from_str(&text).unwrap().satisfied_by(closure);
    if got_ll != want {
        out.push(viol("lossless-same-package-alternatives", format!("field {:?} with pkg at {:?}: lossless says {}, expected {}", text, POOL.get(inst), got_ll, want)));
    }
    if got_ly != want {
        out.push(viol("lossy-same-package-alternatives", format!("field {:?} with pkg at {:?}: lossy says {}, expected {}", text, POOL.get(inst), got_ly, want)));
    }
    out
}

fn check_nest(entries: &[Vec<u8>]) -> Vec<Viol> {''')
s = s.replace('''    fn n_shards(&self, t: Tier) -> usize {
        1 + 1 + t.pick(3, 4)
    }''', '''    fn n_shards(&self, t: Tier) -> usize {
        1 + 1 + t.pick(3, 4) + 1
    }''')
s = s.replace('''            k => {
                let entries = k - 1;''', '''            k if k == 2 + t.pick(3, 4) => {
                // alternatives on the same package: 1..3 alternatives x (6 operators x 3 required versions) x installed
                let per = 6 * SAME_REQ.len();
                for n_alt in 1..=3usize {
                    let mut m = vec![per; n_alt];
                    m.push(SAME_REQ.len() + 2);
                    product(&m, &mut |v| {
                        let alts: Vec<(usize, usize)> = v[..n_alt].iter().map(|x| (x / SAME_REQ.len(), SAME_REQ[x % SAME_REQ.len()])).collect();
                        if alts.iter().any(|(op, req)| *op == 0 && *req != SAME_REQ[0]) {
                            return; // required version irrelevant for an unversioned alternative
                        }
                        let iv = v[n_alt];
                        let inst = match iv {
                            0 => 1,  // between the required versions
                            1 => 2,
                            2 => 3,
                            3 => 5,
                            _ => POOL.len(),
                        };
                        f(&C12Case::SamePkg { alts, inst });
                    });
                }
            }
            k => {
                let entries = k - 1;''')
s = s.replace('''            C12Case::Nest { entries } => check_nest(entries),
        });''', '''            C12Case::Nest { entries } => check_nest(entries),
            C12Case::SamePkg { alts, inst } => check_same(alts, *inst),
        });''')
s = s.replace('''                        C12Case::Nest { .. } => "nest-ok",''', '''                        C12Case::Nest { .. } => "nest-ok",
                        C12Case::SamePkg { .. } => "same-package-ok",''')
s = s.replace('''            C12Case::Cell { .. } => vec![],''', '''            C12Case::Cell { .. } => vec![],
            C12Case::SamePkg { alts, inst } => {
                let mut out = vec![];
                for i in 0..alts.len() {
                    if alts.len() > 1 {
                        let mut a = alts.clone();
                        a.remove(i);
                        out.push(C12Case::SamePkg { alts: a, inst: *inst });
                    }
                }
                out
            }''')
s = s.replace('plus the empty field; all cases distinct', 'plus the empty field; (3) every entry of 1-3 alternatives that all name the SAME package (6 operators x 3 required versions each) x 5 installed states, followed by a second satisfied entry; all cases distinct')
open(p, 'w').write(s)

# ---- C02: grammar-position token tier for codecs
p = '/verif/harness/src/props/c02.rs'
s = open(p).read()
s = s.replace('''    fn n_shards(&self, _t: Tier) -> usize {
        entry_points().len() * 4
    }''', '''    fn n_shards(&self, _t: Tier) -> usize {
        entry_points().len() * 5
    }''')
s = s.replace('let ep = &eps[shard / 4];', 'let ep = &eps[shard / 5];')
s = s.replace('match shard % 4 {', 'match shard % 5 {')
s = s.replace('''            2 => {
                for s in pumped(ep.group, t) {''', '''            4 => {
                // grammar-position tier: few multi-character tokens, long enough sequences to fill every position
                // of the longest value grammar (VCS location: url, subpath, branch in either order; records of 3-5 items)
                if ep.group == Group::Codec {
                    let toks = ["u", "https://host/r.git", " [", "]", " -b ", "m", "src/packaging/debian", " "];
                    let sp = SeqSpace::new(&toks, t.pick(6, 7), 0);
                    sp.explore(0, &mut |s, idx| {
                        if idx.len() < 4 {
                            return;
                        }
                        case.s.clear();
                        case.s.push_str(s);
                        case.fresh = false;
                        f(&case);
                    });
                }
            }
            2 => {
                for s in pumped(ep.group, t) {''')
s = s.replace('(4) for typed documents', '(4) for single-value codecs every sequence of 4-6 (thorough 7) tokens of the longest value grammar (url, " [", subpath, "]", " -b ", branch, blank); (5) for typed documents')
open(p, 'w').write(s)
print("ok")
