#!/bin/sh
# usage: tools/confirm_seed.sh <Cxx> <worktree> <demo path relative to worktree> <demo command...>
# Confirms, in the scratch worktree: suite passes with patch; demo fails with patch; demo passes without.
id=$1; wt=$2; rel=$3; shift 3
cd "$wt" || exit 2
git checkout -q -- . ; rm -f "$rel"
git apply SEED/patch.diff || { echo "patch does not apply"; exit 2; }
suite=$(cargo test --workspace --no-fail-fast --offline 2>&1 | awk '/^test result/ {p+=$4; f+=$6} END {print "passed=" p " failed=" f}')
mkdir -p "$(dirname "$rel")"; cp SEED/demo.rs "$rel"
if "$@" >/tmp/confirm.$$.log 2>&1; then with="PASS(unexpected)"; else with="fail(expected)"; fi
git checkout -q -- .
if "$@" >/tmp/confirm.$$.log 2>&1; then without="pass(expected)"; else without="FAIL(unexpected)"; fi
rm -f "$rel"; rmdir "$(dirname "$rel")" 2>/dev/null
rm -f /tmp/confirm.$$.log
echo "$id: suite_with_patch[$suite] demo_with_patch[$with] demo_without_patch[$without]"
