//! E1: exhaustive enumeration of all sequences over a symbol alphabet up to a length bound,
//! sharded by prefix.  Enumeration order inside a shard is trie pre-order (every prefix is
//! itself a case), simplest symbol first.

#[derive(Clone)]
pub struct SeqSpace {
    pub symbols: Vec<String>,
    pub max_len: usize,
    pub prefix_len: usize,
}

impl SeqSpace {
    pub fn new(symbols: &[&str], max_len: usize, prefix_len: usize) -> Self {
        SeqSpace {
            symbols: symbols.iter().map(|s| s.to_string()).collect(),
            max_len,
            prefix_len: prefix_len.min(max_len),
        }
    }
    pub fn k(&self) -> usize {
        self.symbols.len()
    }
    /// K^P prefix shards + 1 shard for all sequences shorter than P.
    pub fn n_shards(&self) -> usize {
        self.k().pow(self.prefix_len as u32) + 1
    }
    /// Total number of sequences of length 0..=max_len.
    pub fn total(&self) -> u64 {
        let k = self.k() as u64;
        let mut t = 0u64;
        let mut p = 1u64;
        for _ in 0..=self.max_len {
            t += p;
            p = p.saturating_mul(k);
        }
        t
    }
    /// Enumerate the shard; `f` gets the string and the symbol indices.
    pub fn explore(&self, shard: usize, f: &mut dyn FnMut(&str, &[u8])) {
        let k = self.k();
        let np = k.pow(self.prefix_len as u32);
        let mut buf = String::new();
        let mut idx: Vec<u8> = vec![];
        if shard == np {
            // all sequences of length < prefix_len
            if self.prefix_len == 0 {
                return;
            }
            self.rec(&mut buf, &mut idx, self.prefix_len - 1, f);
            return;
        }
        // decode prefix
        let mut digits = vec![0usize; self.prefix_len];
        let mut x = shard;
        for d in (0..self.prefix_len).rev() {
            digits[d] = x % k;
            x /= k;
        }
        for d in &digits {
            buf.push_str(&self.symbols[*d]);
            idx.push(*d as u8);
        }
        self.rec(&mut buf, &mut idx, self.max_len, f);
    }
    fn rec(&self, buf: &mut String, idx: &mut Vec<u8>, max_len: usize, f: &mut dyn FnMut(&str, &[u8])) {
        f(buf, idx);
        if idx.len() >= max_len {
            return;
        }
        for (i, s) in self.symbols.iter().enumerate() {
            let l = buf.len();
            buf.push_str(s);
            idx.push(i as u8);
            self.rec(buf, idx, max_len, f);
            idx.pop();
            buf.truncate(l);
        }
    }
}

/// Shrink candidates for a string: delete one char; replace one char by 'A' / ' ' when different.
/// A long text abbreviated for a violation message (length, head, tail).
pub fn brief(s: &str) -> String {
    if s.len() <= 300 {
        return format!("{:?}", s);
    }
    let head: String = s.chars().take(60).collect();
    let tail: String = s.chars().rev().take(60).collect::<Vec<_>>().into_iter().rev().collect();
    format!("<{} bytes: {:?} ... {:?}>", s.len(), head, tail)
}

pub fn shrink_string(s: &str) -> Vec<String> {
    let chars: Vec<char> = s.chars().collect();
    let mut out = vec![];
    // delete halves first for long strings
    if chars.len() > 8 {
        out.push(chars[..chars.len() / 2].iter().collect());
        out.push(chars[chars.len() / 2..].iter().collect());
    }
    // very long strings (size-threshold cases): block deletions only, not one candidate per character
    if chars.len() > 512 {
        let n = chars.len();
        for blocks in [4usize, 16, 64] {
            let b = n / blocks;
            for i in 0..blocks {
                let mut c: Vec<char> = chars[..i * b].to_vec();
                c.extend_from_slice(&chars[(i + 1) * b..]);
                out.push(c.into_iter().collect());
            }
        }
        for i in [0, 1, n / 2, n - 2, n - 1] {
            let mut c = chars.clone();
            c.remove(i);
            out.push(c.into_iter().collect());
        }
        return out;
    }
    for i in 0..chars.len() {
        let mut c = chars.clone();
        c.remove(i);
        out.push(c.into_iter().collect());
    }
    for i in 0..chars.len() {
        if chars[i] != 'a' {
            let mut c = chars.clone();
            c[i] = 'a';
            out.push(c.into_iter().collect());
        }
    }
    out
}

/// Several sequence spaces explored one after the other (shards concatenated).  When `strip`
/// is set, each sequence is additionally submitted with its final character removed (to get
/// the "no terminator on the last line" variants of line-template spaces).
#[derive(Clone)]
pub struct MultiSpace {
    pub spaces: Vec<(SeqSpace, bool)>,
}

impl MultiSpace {
    pub fn n_shards(&self) -> usize {
        self.spaces.iter().map(|(s, _)| s.n_shards()).sum()
    }
    pub fn total(&self) -> u64 {
        self.spaces.iter().map(|(s, st)| s.total() * if *st { 2 } else { 1 }).sum()
    }
    /// `f(text, space index, sequence length, is the stripped variant)`
    pub fn explore(&self, mut shard: usize, f: &mut dyn FnMut(&str, usize, usize, bool)) {
        for (si, (sp, strip)) in self.spaces.iter().enumerate() {
            if shard < sp.n_shards() {
                sp.explore(shard, &mut |s, idx| {
                    f(s, si, idx.len(), false);
                    if *strip {
                        if let Some(c) = s.chars().last() {
                            f(&s[..s.len() - c.len_utf8()], si, idx.len(), true);
                        }
                    }
                });
                return;
            }
            shard -= sp.n_shards();
        }
    }
    pub fn describe(&self) -> serde_json::Value {
        serde_json::Value::Array(
            self.spaces
                .iter()
                .map(|(s, st)| {
                    serde_json::json!({"symbols": s.symbols, "max_len": s.max_len, "sequences": s.total(), "also_without_last_char": st})
                })
                .collect(),
        )
    }
}

/// A reader that hands out at most `chunk` bytes per `read` call (the "short read" answers of the environment) and,
/// when `fail_at` is set, reports an I/O error once that many bytes have been delivered.
pub struct ChunkReader<'a> {
    pub data: &'a [u8],
    pub pos: usize,
    pub chunk: usize,
    pub fail_at: Option<usize>,
}
impl<'a> ChunkReader<'a> {
    pub fn new(data: &'a [u8], chunk: usize) -> Self {
        ChunkReader { data, pos: 0, chunk: chunk.max(1), fail_at: None }
    }
    pub fn failing(data: &'a [u8], chunk: usize, fail_at: usize) -> Self {
        ChunkReader { data, pos: 0, chunk: chunk.max(1), fail_at: Some(fail_at) }
    }
}
impl<'a> std::io::Read for ChunkReader<'a> {
    fn read(&mut self, buf: &mut [u8]) -> std::io::Result<usize> {
        if let Some(f) = self.fail_at {
            if self.pos >= f {
                return Err(std::io::Error::new(std::io::ErrorKind::Other, "injected read error"));
            }
        }
        let mut n = self.chunk.min(buf.len()).min(self.data.len() - self.pos);
        if let Some(f) = self.fail_at {
            n = n.min(f - self.pos);
        }
        buf[..n].copy_from_slice(&self.data[self.pos..self.pos + n]);
        self.pos += n;
        Ok(n)
    }
}
