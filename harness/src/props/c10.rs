//! C10 — well-formed relationship fields are read exactly as written, by both readers.
//! C13 — relation wrap-and-sort yields a canonical, sorted, meaning-preserving form.
//! Both run over the same generated fields (DESIGN 3/C10, 3/C13).

use crate::core::*;
use crate::kdev::*;
use crate::relgen::*;
use debian_control::lossless::relations as ll;
use debian_control::lossy as ly;
use serde::{Deserialize, Serialize};
use serde_json::{json, Value};
use std::str::FromStr;

#[derive(Clone, Serialize, Deserialize, PartialEq, Debug)]
pub struct RelCase {
    pub skel: RSkel,
    pub v: Vec<usize>,
    pub subst: bool,
    /// identifier-alphabet clause: this character (code point) inside a package name (`false`) or a version (`true`)
    #[serde(default, skip_serializing_if = "Option::is_none")]
    pub ident: Option<(u32, bool)>,
}

#[derive(Clone, Copy, PartialEq)]
pub enum RWhich {
    C10,
    C13,
}
pub struct RelProp(pub RWhich);

fn k_for(t: Tier, sk: RSkel) -> usize {
    match t {
        Tier::Quick => {
            if sk.entries * sk.alts <= 2 {
                2
            } else {
                1
            }
        }
        Tier::Thorough => {
            if sk.entries * sk.alts == 1 {
                4
            } else if sk.entries * sk.alts <= 4 {
                3
            } else {
                2
            }
        }
    }
}

/// shards: per skeleton x subst: baseline + each first slot; plus the single-relation full product
pub const PERM_BASE: u32 = 0x40_0000;
/// case `idx` of the ordering family: (relation text, model) in the order they are written
fn perm_case(idx: usize) -> Option<Vec<(String, MRel)>> {
    let names = ["a", "lib-x+1.0", "0ad", "b"];
    let mk = |name: &str, ver: Option<&str>| -> (String, MRel) {
        let text = match ver {
            Some(v) => format!("{} (>= {})", name, v),
            None => name.to_string(),
        };
        (text, MRel { name: name.to_string(), archqual: None, version: ver.map(|v| (">=".to_string(), v.to_string())), archs: None, profiles: vec![] })
    };
    let mut seqs: Vec<Vec<(String, MRel)>> = vec![];
    // permutations of 3 and of 4 distinct names, without and with versions
    fn perms(items: &[usize]) -> Vec<Vec<usize>> {
        if items.len() <= 1 {
            return vec![items.to_vec()];
        }
        let mut out = vec![];
        for i in 0..items.len() {
            let mut rest = items.to_vec();
            let x = rest.remove(i);
            for mut p in perms(&rest) {
                p.insert(0, x);
                out.push(p);
            }
        }
        out
    }
    for n in [3usize, 4] {
        for p in perms(&(0..n).collect::<Vec<_>>()) {
            for with_ver in [false, true] {
                seqs.push(p.iter().map(|i| mk(names[*i], if with_ver { Some(["1", "2:1.0", "1.0~rc1", "3-1"][*i]) } else { None })).collect());
            }
        }
    }
    // one name, different versions / operators, both orders; with an unversioned one among them
    for p in perms(&[0, 1, 2]) {
        let vs = [Some("1"), Some("2"), None];
        seqs.push(p.iter().map(|i| mk("a", vs[*i])).collect());
    }
    seqs.into_iter().nth(idx)
}
fn n_perm_cases() -> usize {
    (6 + 24) * 2 + 6
}

#[derive(Clone, Copy)]
enum RShard {
    Dev(RSkel, bool, Option<usize>),
    /// full product of the six relation parts for a one-relation field, crossed with every single whitespace deviation
    Parts(usize),
    /// every identifier character inside a package name and inside a version
    Ident,
}

fn shards() -> Vec<RShard> {
    let mut v = vec![];
    for sk in skeletons() {
        for subst in [false, true] {
            v.push(RShard::Dev(sk, subst, None));
            for i in 0..menus(sk).len() {
                v.push(RShard::Dev(sk, subst, Some(i)));
            }
        }
    }
    for name in 0..NAMES.len() {
        v.push(RShard::Parts(name));
    }
    v.push(RShard::Ident);
    v
}

fn explore_rel(t: Tier, shard: usize, f: &mut dyn FnMut(&RelCase) -> Verdict) {
    match shards()[shard] {
        RShard::Dev(sk, subst, first) => {
            let m = menus(sk);
            kdev_shard(&m, k_for(t, sk), first, &mut |v| {
                if render(sk, v, subst).is_some() {
                    // fields without a substvar slot chosen are explored once (subst = false) except the baseline
                    let has_sv = (0..sk.entries).any(|e| v[3 + e * (3 + sk.alts * (2 + REL_SLOTS))] >= 2);
                    if subst && !has_sv && first.is_some() {
                        return;
                    }
                    f(&RelCase { skel: sk, v: v.to_vec(), subst, ident: None });
                }
            });
        }
        RShard::Ident => {
            let sk = RSkel { entries: 1, alts: 1 };
            for cp in 33u32..127 {
                let ch = char::from_u32(cp).unwrap();
                if ch.is_ascii_alphanumeric() || "-.+~".contains(ch) {
                    f(&RelCase { skel: sk, v: vec![], subst: false, ident: Some((cp, false)) });
                    f(&RelCase { skel: sk, v: vec![], subst: false, ident: Some((cp, true)) });
                    for pos in 2u32..=5 {
                        f(&RelCase { skel: sk, v: vec![], subst: pos == 5, ident: Some((cp | (pos << 12), false)) });
                    }
                }
            }
            for idx in 0..n_perm_cases() {
                for as_alternatives in [false, true] {
                    f(&RelCase { skel: sk, v: vec![], subst: false, ident: Some((PERM_BASE + idx as u32, as_alternatives)) });
                }
            }
        }
        RShard::Parts(name) => {
            let sk = RSkel { entries: 1, alts: 1 };
            let m = menus(sk);
            let base = 3 + 3 + 2; // index of the relation slots
            product(&[3, 6, VERS.len(), ARCHS.len(), 8], &mut |pv| {
                let mut v = vec![0usize; m.len()];
                v[base] = name;
                for (i, x) in pv.iter().enumerate() {
                    v[base + 1 + i] = *x;
                }
                if render(sk, &v, false).is_none() {
                    return;
                }
                f(&RelCase { skel: sk, v: v.clone(), subst: false, ident: None });
                // every single whitespace deviation on top of this relation (for the first three versions and six
                // architecture lists; the further shapes of those two menus go through the product above)
                if pv[2] >= 3 || pv[3] >= 6 {
                    return;
                }
                for ws in (base + 6..base + REL_SLOTS).chain([0, 1, 2]) {
                    for c in 1..m[ws] {
                        let mut w = v.clone();
                        w[ws] = c;
                        if render(sk, &w, false).is_some() {
                            f(&RelCase { skel: sk, v: w, subst: false, ident: None });
                        }
                    }
                }
            });
        }
    }
}

fn sorted_field(m: &MField) -> (Vec<Vec<MRel>>, Vec<String>) {
    let mut es: Vec<Vec<MRel>> = m
        .entries
        .iter()
        .map(|e| {
            let mut e = e.clone();
            e.sort();
            e
        })
        .collect();
    es.sort();
    let mut sv = m.substvars.clone();
    sv.sort();
    (es, sv)
}

fn check_c10(text: &str, model: &MField, subst: bool) -> Vec<Viol> {
    let mut out = vec![];
    let (r, errs) = ll::Relations::parse_relaxed(text, subst);
    if !errs.is_empty() {
        out.push(viol("lossless-accepts", format!("field {:?} (substvars {}): errors {:?}", text, subst, errs)));
        return out;
    }
    if !subst && ll::Relations::from_str(text).is_err() {
        out.push(viol("lossless-accepts", format!("field {:?}: strict reader fails", text)));
    }
    let got = read_ll(&r);
    if got != *model {
        out.push(viol("lossless-reads-model", format!("field {:?}: got {:?} want {:?}", text, got, model)));
    }
    // the other views of the same tree agree with entries() / relations(): counts, emptiness, positional access, iter()
    {
        let es: Vec<String> = r.entries().map(|e| e.to_string()).collect();
        let it: Vec<String> = r.iter().map(|e| e.to_string()).collect();
        let by_index: Vec<Option<String>> = (0..=es.len()).map(|i| r.get_entry(i).map(|e| e.to_string())).collect();
        let want_idx: Vec<Option<String>> = es.iter().cloned().map(Some).chain([None]).collect();
        if r.len() != es.len() || r.is_empty() != es.is_empty() || it != es || by_index != want_idx {
            out.push(viol("lossless-reads-model", format!("field {:?}: entries() yields {:?}, but len() {} is_empty() {} iter() {:?} get_entry(0..=len) {:?}", text, es, r.len(), r.is_empty(), it, by_index)));
        }
        for e in r.entries() {
            let rs: Vec<String> = e.relations().map(|x| x.to_string()).collect();
            let it: Vec<String> = e.iter().map(|x| x.to_string()).collect();
            let by_index: Vec<Option<String>> = (0..=rs.len()).map(|i| e.get_relation(i).map(|x| x.to_string())).collect();
            let want_idx: Vec<Option<String>> = rs.iter().cloned().map(Some).chain([None]).collect();
            if e.len() != rs.len() || e.is_empty() != rs.is_empty() || it != rs || by_index != want_idx {
                out.push(viol("lossless-reads-model", format!("field {:?} entry {:?}: relations() yields {:?}, but len() {} is_empty() {} iter() {:?} get_relation(0..=len) {:?}", text, e.to_string(), rs, e.len(), e.is_empty(), it, by_index)));
            }
        }
    }
    // a line break between the items of an architecture / profile list is error-free for the lossless reader, but the
    // statement promises free newlines only around separators, so the lossy reader is not required to take it
    let newline_inside_list = {
        let mut depth = 0i32;
        let mut in_parens = false;
        let mut hit = false;
        for ch in text.chars() {
            match ch {
                '(' => in_parens = true,
                ')' => in_parens = false,
                _ if in_parens => {} // '<' and '>' inside a version constraint are operators
                '[' | '<' => depth += 1,
                ']' | '>' => depth -= 1,
                '\n' if depth > 0 => hit = true,
                _ => {}
            }
        }
        hit
    };
    if model.substvars.is_empty() && !newline_inside_list {
        match ly::Relations::from_str(text) {
            Ok(l) => {
                let g = read_ly(&l);
                if g.entries != model.entries {
                    out.push(viol("lossy-reads-model", format!("field {:?}: got {:?} want {:?}", text, g.entries, model.entries)));
                }
            }
            Err(e) => out.push(viol("lossy-accepts", format!("field {:?}: {}", text, e))),
        }
    }
    out
}

fn canon_field(entries: &[Vec<MRel>], substvars: &[String], sv_first: bool) -> String {
    let mut items: Vec<String> = entries.iter().map(|e| e.iter().map(canon_rel).collect::<Vec<_>>().join(" | ")).collect();
    if sv_first {
        let mut v = substvars.to_vec();
        v.extend(items);
        items = v;
    } else {
        items.extend(substvars.iter().cloned());
    }
    items.join(", ")
}

/// Policy 7.1 / 5.6.10: the relationship fields of a source paragraph and of a binary paragraph
pub const SOURCE_REL_FIELDS: [&str; 6] = ["Build-Depends", "Build-Depends-Indep", "Build-Depends-Arch", "Build-Conflicts", "Build-Conflicts-Indep", "Build-Conflicts-Arch"];
pub const BINARY_REL_FIELDS: [&str; 10] = ["Pre-Depends", "Depends", "Recommends", "Suggests", "Enhances", "Breaks", "Conflicts", "Provides", "Replaces", "Built-Using"];

/// The same normal form must come out when the field sits in a control file and the file, or its paragraph, is reformatted.
fn check_c13_control(text: &str, expected: &str, few_fields: bool) -> Vec<Viol> {
    use debian_control::lossless::control::Control;
    use deb822_lossless::Indentation;
    let mut out = vec![];
    let folded = text.replace('\n', "\n ");
    for (fi, field) in SOURCE_REL_FIELDS.iter().chain(BINARY_REL_FIELDS.iter()).enumerate() {
        let in_source = fi < SOURCE_REL_FIELDS.len();
        // (the many-part relations with a line break inside a list: one source and one binary field)
        if few_fields && fi != 0 && fi != SOURCE_REL_FIELDS.len() {
            continue;
        }
        let doc = if in_source {
            format!("Source: s\n{}: {}\nMaintainer: m\n\nPackage: p\nArchitecture: any\n", field, folded)
        } else {
            format!("Source: s\nMaintainer: m\n\nPackage: p\n{}: {}\nArchitecture: any\n", field, folded)
        };
        for via in 0..2 {
            for (si, (ind, iel, one)) in [(Indentation::Spaces(1), false, None), (Indentation::FieldNameLength, true, Some(20usize))].into_iter().enumerate() {
                let Ok(mut control) = Control::from_str(&doc) else {
                    continue; // e.g. a whitespace-only continuation line: not a control file (C03's business)
                };
                // Source/Binary::wrap_and_sort re-point the handle to the reformatted paragraph: read the result from the handle
                let printed = if via == 0 {
                    control.wrap_and_sort(ind, iel, one);
                    control.to_string()
                } else if in_source {
                    let Some(mut sp) = control.source() else { continue };
                    sp.wrap_and_sort(ind, iel, one);
                    sp.as_deb822().to_string()
                } else {
                    let Some(mut bp) = control.binaries().next() else { continue };
                    bp.wrap_and_sort(ind, iel, one);
                    format!("Source: s\n\n{}", bp.as_deb822())
                };
                let got = match Control::from_str(&printed) {
                    Ok(c2) => c2.as_deb822().paragraphs().find_map(|p| p.get(field)),
                    Err(e) => {
                        out.push(viol("control-wrapper", format!("field {}: {:?} reformatted ({} setting {}) to {:?}, which does not parse: {}", field, doc, if via == 0 { "Control::wrap_and_sort" } else { "Source/Binary::wrap_and_sort" }, si, printed, e)));
                        continue;
                    }
                };
                if got.as_deref().map(|g| g.trim()) != Some(expected) {
                    out.push(viol(
                        "control-wrapper",
                        format!("field {} with value {:?}: {} (setting {}) leaves {:?}; Relations::wrap_and_sort gives {:?}", field, text, if via == 0 { "Control::wrap_and_sort" } else { "Source/Binary::wrap_and_sort" }, si, got, expected),
                    ));
                }
            }
        }
    }
    out
}

fn check_c13(text: &str, model: &MField, subst: bool, through_control: bool) -> Vec<Viol> {
    let mut out = vec![];
    // a field of many deviations goes through the control wrappers too when a line break stands inside a list (in a control
    // file the break is then the only separator between two items), under one source and one binary field name
    let through_control_few = !through_control && text.contains('\n') && {
        let mut depth = 0i32;
        let mut hit = false;
        for ch in text.chars() {
            match ch {
                '[' | '<' if !hit => depth += 1,
                ']' | '>' => depth -= 1,
                '\n' if depth > 0 => hit = true,
                _ => {}
            }
        }
        hit
    };
    let through_control = through_control || through_control_few;
    let (r, errs) = ll::Relations::parse_relaxed(text, subst);
    if !errs.is_empty() {
        return out; // C10's business
    }
    let w = r.wrap_and_sort();
    let o = w.to_string();
    let ctx = |what: &str| format!("field {:?} (substvars {}) normalised to {:?}: {}", text, subst, o, what);
    let (re, errs2) = ll::Relations::parse_relaxed(&o, subst);
    if !errs2.is_empty() || (!subst && ll::Relations::from_str(&o).is_err()) {
        out.push(viol("result-parses-strictly", ctx(&format!("errors {:?}", errs2))));
        return out;
    }
    let m2 = read_ll(&re);
    // the returned object itself must report what its text says (its tree is rebuilt, not parsed)
    let live = read_ll(&w);
    if live != m2 {
        out.push(viol("live-equals-reread", ctx(&format!("the returned object reports {:?}, its printed text reads as {:?}", live, m2))));
    }
    if sorted_field(&m2) != sorted_field(model) {
        out.push(viol("same-dependencies", ctx(&format!("reads as {:?}, input meant {:?}", m2, model))));
    }
    if o != canon_field(&m2.entries, &m2.substvars, false) && o != canon_field(&m2.entries, &m2.substvars, true) {
        out.push(viol("canonical-text", ctx(&format!("canonical rendering of what it denotes is {:?}", canon_field(&m2.entries, &m2.substvars, false)))));
    }
    if m2.entries.iter().any(|e| e.is_empty()) {
        out.push(viol("no-empty-entries", ctx("empty entry in the output")));
    }
    for e in &m2.entries {
        if !e.windows(2).all(|w| w[0].name <= w[1].name) {
            out.push(viol("alternatives-sorted", ctx(&format!("alternatives {:?}", e.iter().map(|r| r.name.clone()).collect::<Vec<_>>()))));
        }
    }
    // entries are ordered by the package name of their first alternative; the statement says only "sorted", so
    // ties on that name (decided by the implementation through versions / later alternatives) are not constrained
    let names: Vec<Vec<String>> = m2.entries.iter().map(|e| e.iter().map(|r| r.name.clone()).collect()).collect();
    if !names.windows(2).all(|w| w[0].first() <= w[1].first()) {
        out.push(viol("entries-sorted", ctx(&format!("entry name lists {:?}", names))));
    }
    let again = w.wrap_and_sort().to_string();
    if again != o {
        out.push(viol("idempotent", ctx(&format!("second application gives {:?}", again))));
    }
    let again2 = re.wrap_and_sort().to_string();
    if again2 != o {
        out.push(viol("idempotent", ctx(&format!("normalising the re-read output gives {:?}", again2))));
    }
    // trees of other provenance must normalise to the same text; the entry- and relation-level entry points agree
    if out.is_empty() && model.substvars.is_empty() && ll::Relations::from_str(text).is_ok() {
        let r = ll::Relations::from_str(text).unwrap();
        for (how, v) in crate::props::c12::ll_variants(text) {
            let got = v.wrap_and_sort().to_string();
            // (rebuilding through Relation::new keeps name and version only: compare only when nothing else was written)
            let lossy_rebuild = how == "rebuilt with Relation::new" && model.entries.iter().flatten().any(|r| r.archqual.is_some() || r.archs.is_some() || !r.profiles.is_empty());
            if got != o && !lossy_rebuild {
                out.push(viol("provenance", ctx(&format!("the field {} normalises to {:?}", how, got))));
            }
        }
        let n_entries = r.entries().count();
        for at in 0..=n_entries {
            let mut es: Vec<ll::Entry> = r.entries().collect();
            es.insert(at, ll::Entry::new());
            let got = ll::Relations::from(es).wrap_and_sort().to_string();
            if got != o {
                out.push(viol("no-empty-entries", ctx(&format!("with an empty constructed entry at position {} the field normalises to {:?}", at, got))));
            }
        }
        let items: Vec<&str> = if o.is_empty() { vec![] } else { o.split(", ").collect() };
        for e in r.entries() {
            if e.relations().next().is_none() {
                continue;
            }
            let we = e.wrap_and_sort().to_string();
            if !items.contains(&we.as_str()) {
                out.push(viol("entry-entry-point", ctx(&format!("Entry::wrap_and_sort on {:?} gives {:?}, which is not one of the field's normalised entries", e.to_string(), we))));
            }
            for rel in e.relations() {
                let wr = rel.wrap_and_sort().to_string();
                if wr != canon_rel(&read_ll_rel(&rel)) {
                    out.push(viol("relation-entry-point", ctx(&format!("Relation::wrap_and_sort on {:?} gives {:?}", rel.to_string(), wr))));
                }
            }
        }
    }
    if through_control && out.is_empty() {
        // control files always allow substitution variables
        let expected = ll::Relations::parse_relaxed(text, true).0.wrap_and_sort().to_string();
        out.extend(check_c13_control(text, &expected, through_control_few));
    }
    out
}

impl Prop for RelProp {
    type Case = RelCase;
    fn id(&self) -> &'static str {
        match self.0 {
            RWhich::C10 => "C10",
            RWhich::C13 => "C13",
        }
    }
    fn level(&self) -> &'static str {
        "exploration"
    }
    fn rule(&self, _t: Tier) -> String {
        "relationship fields are choice vectors over the slots of an ExA skeleton (1-3 entries x 1-3 alternatives): entry kind (relation entry / empty entry / substvar), whitespace around ',' and '|' and at field start/end (incl. newlines), trailing comma, and per relation name, archqual, operator, version (epoch, '~'), architecture list (negated or not), profile groups and whitespace between parts; every vector with <= k deviations is rendered with its model and read; additionally every identifier character (alphanumerics, '-', '.', '+', '~') inside a package name, a version, an architecture name, an architecture qualifier, a profile name and a substitution variable, every order of three and of four relations with distinct names (with and without versions) and of three relations of one name with different versions, as entries and as alternatives, and the FULL product of the relation parts for a one-relation field x every single whitespace deviation; vectors whose deviation has no effect are skipped (all cases distinct); non-trivial = field with at least one deviation".into()
    }
    fn bounds(&self, t: Tier) -> Value {
        let per: Vec<Value> = skeletons().iter().map(|sk| json!({"skeleton": sk, "slots": menus(*sk).len(), "k": k_for(t, *sk), "vectors_upper_bound": kdev_count(&menus(*sk), k_for(t, *sk))})).collect();
        json!({"skeletons": per, "single_relation_parts_product": 3 * 3 * 6 * VERS.len() * ARCHS.len() * 8, "menus": {"names": NAMES, "archquals": ARCHQUALS, "ops": OPS, "versions": VERS, "archs": ARCHS, "profiles": PROFILES, "separator_ws": SEP_WS, "part_ws": PART_WS, "item_ws": ITEM_WS}})
    }
    fn assumptions(&self) -> Vec<String> {
        vec![
            "whitespace is varied only where the statement and Policy 7.1 allow it (around separators, at field start/end, between the parts of a relation and between list items)".into(),
            "negated architectures are expected to be reported with their '!' prefix (the accessor returns strings)".into(),
            "C13: the order among entries/alternatives with equal names is not constrained; substvars may be placed before or after the entries".into(),
        ]
    }
    fn n_shards(&self, _t: Tier) -> usize {
        shards().len()
    }
    fn explore(&self, t: Tier, shard: usize, f: &mut dyn FnMut(&RelCase) -> Verdict) {
        explore_rel(t, shard, f)
    }
    fn check(&self, c: &RelCase, st: &mut Stats) -> Vec<Viol> {
        let rendered = match c.ident {
            Some((cp, as_alternatives)) if cp >= PERM_BASE => {
                // every order of 2..4 relations (distinct names, or one name with different versions) as the entries of a
                // field / as the alternatives of one entry
                let Some(rels) = perm_case((cp - PERM_BASE) as usize) else { return vec![] };
                let text = rels.iter().map(|(t, _)| t.as_str()).collect::<Vec<_>>().join(if as_alternatives { " | " } else { ", " });
                let ms: Vec<MRel> = rels.into_iter().map(|(_, m)| m).collect();
                let entries = if as_alternatives { vec![ms] } else { ms.into_iter().map(|m| vec![m]).collect() };
                Some((text, MField { entries, substvars: vec![] }))
            }
            Some((cp, _)) if cp >= 0x1000 => {
                // the identifier alphabet in the other places that hold an identifier: an architecture name, an architecture
                // qualifier, a profile name, a substitution variable
                let ch = char::from_u32(cp & 0xfff).unwrap_or('a');
                let id = format!("x{}y", ch);
                let mut m = MRel { name: "a".into(), archqual: None, version: None, archs: None, profiles: vec![] };
                let mut substvars = vec![];
                let text = match cp >> 12 {
                    2 => {
                        m.archs = Some(vec![id.clone(), format!("!{}", id)]);
                        format!("a [{} !{}]", id, id)
                    }
                    3 => {
                        m.archqual = Some(id.clone());
                        format!("a:{}", id)
                    }
                    4 => {
                        m.profiles = vec![vec![id.clone(), format!("!{}", id)]];
                        format!("a <{} !{}>", id, id)
                    }
                    _ => {
                        substvars.push(format!("${{{}:Z}}", id));
                        format!("${{{}:Z}}, a", id)
                    }
                };
                Some((text, MField { entries: vec![vec![m]], substvars }))
            }
            Some((cp, in_version)) => {
                let ch = char::from_u32(cp).unwrap_or('a');
                let name = if in_version { "pkg".to_string() } else { format!("x{}y", ch) };
                let version = if in_version { Some(("=".to_string(), format!("1{}2", ch))) } else { None };
                let text = match &version {
                    Some((op, v)) => format!("{} ({} {})", name, op, v),
                    None => name.clone(),
                };
                let m = MRel { name, archqual: None, version, archs: None, profiles: vec![] };
                Some((text, MField { entries: vec![vec![m]], substvars: vec![] }))
            }
            None => render(c.skel, &c.v, c.subst),
        };
        let Some((text, model)) = rendered else {
            return vec![];
        };
        if c.v.iter().any(|x| *x != 0) || c.ident.is_some() {
            st.nontrivial += 1;
        }
        let r = guard(budget_for(text.len() + 64) * 400, || match self.0 {
            RWhich::C10 => check_c10(&text, &model, c.subst),
            RWhich::C13 => check_c13(&text, &model, c.subst, c.ident.is_none() && c.v.iter().filter(|x| **x != 0).count() <= 1),
        });
        match r {
            Ok(vs) => {
                if vs.is_empty() {
                    st.outcome_with(if model.substvars.is_empty() { "ok" } else { "ok-with-substvars" }, c);
                }
                vs
            }
            Err(p) => vec![viol(if is_budget(&p) { "hang" } else { "panic" }, format!("field {:?}: {}", text, panic_detail(&p)))],
        }
    }
    fn shrinks(&self, c: &RelCase) -> Vec<RelCase> {
        let mut out = vec![];
        // transplant to the 1x1 skeleton when only the first relation deviates
        let small = RSkel { entries: 1, alts: 1 };
        if c.skel != small {
            let n = menus(small).len();
            if c.v.len() >= n && c.v[n..].iter().all(|x| *x == 0) {
                out.push(RelCase { skel: small, v: c.v[..n].to_vec(), subst: c.subst, ident: None });
            }
        }
        for i in 0..c.v.len() {
            if c.v[i] != 0 {
                let mut v = c.v.clone();
                v[i] = 0;
                if render(c.skel, &v, c.subst).is_some() {
                    out.push(RelCase { skel: c.skel, v, subst: c.subst, ident: None });
                }
            }
        }
        if c.subst {
            out.push(RelCase { subst: false, ..c.clone() });
        }
        out
    }
    fn snippet(&self, c: &RelCase, v: &Viol) -> String {
        let text = render(c.skel, &c.v, c.subst).map(|x| x.0).unwrap_or_default();
        format!(
            "#[test]\nfn {}_replay() {{\n    use debian_control::lossless::relations::Relations;\n    let (r, errs) = Relations::parse_relaxed({:?}, {});\n    println!(\"{{:?}} {{}}\", errs, r.wrap_and_sort());\n    // clause {}: {}\n}}\n",
            self.id().to_lowercase(),
            text,
            c.subst,
            v.clause,
            v.detail.replace('\n', "\\n")
        )
    }
    fn required_outcomes(&self) -> Vec<&'static str> {
        vec!["ok"]
    }
}
