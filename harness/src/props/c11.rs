//! C11 — editing relationship fields keeps them well-formed and matches a list-of-lists model.
//! Breadth-first exploration of edit histories on live objects (DESIGN 2.5, 3/C11).

use crate::core::*;
use crate::relgen::*;
use debian_control::lossless::relations as ll;
use debian_control::lossy as ly;
use debian_control::relations::{BuildProfile, VersionConstraint};
use serde::{Deserialize, Serialize};
use serde_json::{json, Value};
use std::collections::HashSet;
use std::str::FromStr;

#[derive(Clone, Copy, Serialize, Deserialize, PartialEq, Debug)]
pub enum ROperand {
    /// "c (>= 1)".parse()
    Parsed,
    /// Relation::simple("d")
    Simple,
    /// Relation::new("e", Some((<<, 2:1.0)))
    New,
    /// Relation::build("f").archqual("any").architectures([amd64]).add_profile([!x]).build()
    Built,
    /// Relation::from(lossy relation g (>= 1) [i386] <x> <!y z>)
    FromLossy,
    /// "h ".parse(): a parsed relation that carries trailing whitespace inside its node
    ParsedTrailingWs,
    /// the relation "m (>= 2)" moved out of another entry with remove_relation ("k | m (>= 2) | n")
    Moved,
    /// the relation "w (>> 1)" of a field normalised by wrap_and_sort, moved out with remove_relation
    MovedNormalised,
    /// "b [!arm64 !i386] <!x y> <z>".parse(): compares EQUAL (lossless Relation's == ignores the order of the architecture
    /// list) to a relation of one of the initial fields, but is a different value
    EqualToCurrent,
}
pub const ROPERANDS: [ROperand; 9] =
    [ROperand::Parsed, ROperand::Simple, ROperand::New, ROperand::Built, ROperand::FromLossy, ROperand::ParsedTrailingWs, ROperand::Moved, ROperand::MovedNormalised, ROperand::EqualToCurrent];

#[derive(Clone, Copy, Serialize, Deserialize, PartialEq, Debug)]
pub enum EOperand {
    /// "c".parse::<Entry>()
    Parsed,
    /// Entry::from(vec![Relation::simple("d"), "e (>= 1)".parse()])
    FromVec,
    /// Entry::new() + push(Relation::simple("f"))
    NewPush,
    /// the entry "m | n (<= 3)" moved out of another field with remove_entry ("k, m | n (<= 3), o")
    Moved,
    /// Entry::from(Vec<lossy::Relation>)
    FromLossyVec,
    /// "a:any (<< 2:1.0~rc1) | b [!arm64 !i386] <!x y> <z>".parse(): compares EQUAL to the entry of one of the initial fields
    /// (== ignores the order of an architecture list) but is a different value
    EqualToCurrent,
}
pub const EOPERANDS: [EOperand; 6] = [EOperand::Parsed, EOperand::FromVec, EOperand::NewPush, EOperand::Moved, EOperand::FromLossyVec, EOperand::EqualToCurrent];

#[derive(Clone, Copy, Serialize, Deserialize, PartialEq, Debug)]
pub enum RelEdit {
    SetVersion,
    SetVersionGe,
    SetVersionLe,
    SetVersionGt,
    SetVersionLt,
    ClearVersion,
    DropConstraint,
    SetArchqual,
    SetArchs1,
    SetArchs2,
    AddProfile,
    /// a group of one term / of three terms, a list of three architectures
    AddProfile1,
    AddProfile3,
    SetArchs3,
}
pub const REL_EDITS: [RelEdit; 14] =
    [RelEdit::SetVersion, RelEdit::SetVersionGe, RelEdit::SetVersionLe, RelEdit::SetVersionGt, RelEdit::SetVersionLt, RelEdit::ClearVersion, RelEdit::DropConstraint, RelEdit::SetArchqual, RelEdit::SetArchs1, RelEdit::SetArchs2, RelEdit::AddProfile, RelEdit::AddProfile1, RelEdit::AddProfile3, RelEdit::SetArchs3];
/// first edits of a two-edit sequence through one handle: the ones that may re-root the handle
pub const REROOTING: [RelEdit; 4] = [RelEdit::SetVersion, RelEdit::SetArchs1, RelEdit::AddProfile, RelEdit::SetArchqual];

#[derive(Clone, Serialize, Deserialize, PartialEq, Debug)]
pub enum ROp {
    Push(EOperand),
    Insert(usize, EOperand),
    Replace(usize, EOperand),
    RemoveEntry(usize),
    EPush(usize, ROperand),
    EReplace(usize, usize, ROperand),
    ERemove(usize, usize),
    RelRemove(usize, usize),
    Rel(usize, usize, RelEdit),
    /// two consecutive edits through the same relation handle
    RelPair(usize, usize, RelEdit, RelEdit),
    /// relations.get_entry(e).remove()
    EntrySelfRemove(usize),
    /// two consecutive alternative-level operations through ONE entry handle
    EntryPair(usize, EOp, EOp),
    /// a relation handle (e, j) taken FIRST, then an alternative-level operation on its entry that does not remove or
    /// replace that relation, then an edit through the handle taken first
    KeptRel(usize, usize, EOp, RelEdit),
    /// an entry handle e taken FIRST, then a field-level operation (push / insert elsewhere), then a push through the kept handle
    KeptEntry(usize, usize, ROperand),
    /// TWO handles to the same relation (e, j): the first edit through one, the second through the other
    TwoHandles(usize, usize, RelEdit, RelEdit),
    /// a relation handle (e, j) taken FIRST, then a field-level insertion in front of its entry, then an edit through it
    KeptRelAcrossField(usize, usize, RelEdit),
}

/// an alternative-level operation through an entry handle
#[derive(Clone, Copy, Serialize, Deserialize, PartialEq, Debug)]
pub enum EOp {
    Push(ROperand),
    Replace(usize, ROperand),
    Remove(usize),
}
/// operands used inside EntryPair (kept small: the pair space is quadratic)
const PAIR_OPERANDS: [ROperand; 2] = [ROperand::Simple, ROperand::Parsed];

fn eops_for(m: usize) -> Vec<EOp> {
    let mut v = vec![];
    if m < MAX_ALTS {
        for o in PAIR_OPERANDS {
            v.push(EOp::Push(o));
        }
    }
    for j in 0..m {
        for o in PAIR_OPERANDS {
            v.push(EOp::Replace(j, o));
        }
        v.push(EOp::Remove(j));
    }
    v
}
fn eop_len_after(m: usize, op: &EOp) -> usize {
    match op {
        EOp::Push(_) => m + 1,
        EOp::Replace(..) => m,
        EOp::Remove(_) => m - 1,
    }
}
fn eop_live(en: &mut ll::Entry, op: &EOp) -> Result<(), String> {
    match op {
        EOp::Push(o) => en.push(mk_rel(*o).0),
        EOp::Replace(j, o) => {
            en.get_relation(*j).ok_or("no such relation")?;
            en.replace(*j, mk_rel(*o).0)
        }
        EOp::Remove(j) => {
            en.get_relation(*j).ok_or("no such relation")?;
            en.remove_relation(*j);
        }
    }
    Ok(())
}
fn eop_model(en: &mut Vec<MRel>, op: &EOp) -> Result<(), String> {
    match op {
        EOp::Push(o) => en.push(mk_rel(*o).1),
        EOp::Replace(j, o) => *en.get_mut(*j).ok_or("model index out of range")? = mk_rel(*o).1,
        EOp::Remove(j) => {
            if *j >= en.len() {
                return Err("model index out of range".into());
            }
            en.remove(*j);
        }
    }
    Ok(())
}

/// what an operation handed back to the caller
#[derive(Debug, PartialEq)]
pub enum Ret {
    Nothing,
    Bool(bool),
    Entry(Vec<MRel>),
    Rel(MRel),
}

#[derive(Clone, Serialize, Deserialize, PartialEq, Debug)]
pub struct C11Case {
    pub init: String,
    pub subst: bool,
    pub ops: Vec<ROp>,
    #[serde(default, skip_serializing)]
    pub nocache: bool,
}

fn mrel(name: &str) -> MRel {
    MRel { name: name.into(), archqual: None, version: None, archs: None, profiles: vec![] }
}

fn mk_rel(o: ROperand) -> (ll::Relation, MRel) {
    match o {
        ROperand::Parsed => (ll::Relation::from_str("c (>= 1)").unwrap(), MRel { version: Some((">=".into(), "1".into())), ..mrel("c") }),
        ROperand::Simple => (ll::Relation::simple("d"), mrel("d")),
        ROperand::ParsedTrailingWs => (ll::Relation::from_str("h ").unwrap(), mrel("h")),
        ROperand::Moved => {
            let donor = ll::Entry::from_str("k | m (>= 2) | n").unwrap();
            (donor.remove_relation(1), MRel { version: Some((">=".into(), "2".into())), ..mrel("m") })
        }
        ROperand::MovedNormalised => {
            let donor = ll::Relations::from_str("x, w (>> 1)").unwrap().wrap_and_sort();
            let e = donor.get_entry(0).unwrap();
            (e.remove_relation(0), MRel { version: Some((">>".into(), "1".into())), ..mrel("w") })
        }
        ROperand::EqualToCurrent => (
            ll::Relation::from_str("b [!arm64 !i386] <!x y> <z>").unwrap(),
            MRel { archs: Some(vec!["!arm64".into(), "!i386".into()]), profiles: vec![vec!["!x".into(), "y".into()], vec!["z".into()]], ..mrel("b") },
        ),
        ROperand::New => (
            ll::Relation::new("e", Some((VersionConstraint::LessThan, "2:1.0".parse().unwrap()))),
            MRel { version: Some(("<<".into(), "2:1.0".into())), ..mrel("e") },
        ),
        ROperand::Built => (
            ll::Relation::build("f").archqual("any").architectures(vec!["amd64".to_string()]).add_profile(vec![BuildProfile::Disabled("x".into())]).build(),
            MRel { archqual: Some("any".into()), archs: Some(vec!["amd64".into()]), profiles: vec![vec!["!x".into()]], ..mrel("f") },
        ),
        ROperand::FromLossy => {
            let mut l = ly::Relation::new();
            l.name = "g".into();
            l.version = Some((VersionConstraint::GreaterThanEqual, "1".parse().unwrap()));
            l.architectures = Some(vec!["i386".into()]);
            l.profiles = vec![vec![BuildProfile::Enabled("x".into())], vec![BuildProfile::Disabled("y".into()), BuildProfile::Enabled("z".into())]];
            (
                ll::Relation::from(l),
                MRel {
                    version: Some((">=".into(), "1".into())),
                    archs: Some(vec!["i386".into()]),
                    profiles: vec![vec!["x".into()], vec!["!y".into(), "z".into()]],
                    ..mrel("g")
                },
            )
        }
    }
}

fn mk_entry(o: EOperand) -> (ll::Entry, Vec<MRel>) {
    match o {
        EOperand::Parsed => (ll::Entry::from_str("c").unwrap(), vec![mrel("c")]),
        EOperand::FromVec => (
            ll::Entry::from(vec![ll::Relation::simple("d"), ll::Relation::from_str("e (>= 1)").unwrap()]),
            vec![mrel("d"), MRel { version: Some((">=".into(), "1".into())), ..mrel("e") }],
        ),
        EOperand::NewPush => {
            let mut e = ll::Entry::new();
            e.push(ll::Relation::simple("f"));
            (e, vec![mrel("f")])
        }
        EOperand::Moved => {
            let mut donor = ll::Relations::from_str("k, m | n (<= 3), o").unwrap();
            (donor.remove_entry(1), vec![mrel("m"), MRel { version: Some(("<=".into(), "3".into())), ..mrel("n") }])
        }
        EOperand::EqualToCurrent => (
            ll::Entry::from_str("a:any (<< 2:1.0~rc1) | b [!arm64 !i386] <!x y> <z>").unwrap(),
            vec![
                MRel { archqual: Some("any".into()), version: Some(("<<".into(), "2:1.0~rc1".into())), ..mrel("a") },
                MRel { archs: Some(vec!["!arm64".into(), "!i386".into()]), profiles: vec![vec!["!x".into(), "y".into()], vec!["z".into()]], ..mrel("b") },
            ],
        ),
        EOperand::FromLossyVec => {
            let mut a = ly::Relation::new();
            a.name = "u".into();
            let mut b = ly::Relation::new();
            b.name = "v".into();
            b.version = Some((VersionConstraint::GreaterThan, "1:2-3".parse().unwrap()));
            (ll::Entry::from(vec![a, b]), vec![mrel("u"), MRel { version: Some((">>".into(), "1:2-3".into())), ..mrel("v") }])
        }
    }
}

fn apply_edit_live(r: &mut ll::Relation, e: RelEdit) {
    match e {
        RelEdit::SetVersion => r.set_version(Some((VersionConstraint::Equal, "3".parse().unwrap()))),
        RelEdit::SetVersionGe => r.set_version(Some((VersionConstraint::GreaterThanEqual, "1:3~a".parse().unwrap()))),
        RelEdit::SetVersionLe => r.set_version(Some((VersionConstraint::LessThanEqual, "3-1".parse().unwrap()))),
        RelEdit::SetVersionGt => r.set_version(Some((VersionConstraint::GreaterThan, "3".parse().unwrap()))),
        RelEdit::SetVersionLt => r.set_version(Some((VersionConstraint::LessThan, "3".parse().unwrap()))),
        RelEdit::ClearVersion => r.set_version(None),
        RelEdit::DropConstraint => {
            r.drop_constraint();
        }
        RelEdit::SetArchqual => r.set_archqual("native"),
        RelEdit::SetArchs1 => r.set_architectures(["arm64"].into_iter()),
        RelEdit::SetArchs2 => r.set_architectures(["!s390x", "!mips"].into_iter()),
        RelEdit::AddProfile => r.add_profile(&[BuildProfile::Enabled("p".into()), BuildProfile::Disabled("q".into())]),
        RelEdit::AddProfile1 => r.add_profile(&[BuildProfile::Disabled("p".into())]),
        RelEdit::AddProfile3 => r.add_profile(&[BuildProfile::Enabled("p".into()), BuildProfile::Disabled("q".into()), BuildProfile::Enabled("r".into())]),
        RelEdit::SetArchs3 => r.set_architectures(["armhf", "arm64", "riscv64"].into_iter()),
    }
}
fn apply_edit_model(m: &mut MRel, e: RelEdit) {
    match e {
        RelEdit::SetVersion => m.version = Some(("=".into(), "3".into())),
        RelEdit::SetVersionGe => m.version = Some((">=".into(), "1:3~a".into())),
        RelEdit::SetVersionLe => m.version = Some(("<=".into(), "3-1".into())),
        RelEdit::SetVersionGt => m.version = Some((">>".into(), "3".into())),
        RelEdit::SetVersionLt => m.version = Some(("<<".into(), "3".into())),
        RelEdit::ClearVersion | RelEdit::DropConstraint => m.version = None,
        RelEdit::SetArchqual => m.archqual = Some("native".into()),
        RelEdit::SetArchs1 => m.archs = Some(vec!["arm64".into()]),
        RelEdit::SetArchs2 => m.archs = Some(vec!["!s390x".into(), "!mips".into()]),
        RelEdit::AddProfile => m.profiles.push(vec!["p".into(), "!q".into()]),
        RelEdit::AddProfile1 => m.profiles.push(vec!["!p".into()]),
        RelEdit::AddProfile3 => m.profiles.push(vec!["p".into(), "!q".into(), "r".into()]),
        RelEdit::SetArchs3 => m.archs = Some(vec!["armhf".into(), "arm64".into(), "riscv64".into()]),
    }
}

pub const INITS: [(&str, bool); 13] = [
    ("", false),
    ("a", false),
    ("a, b", false),
    ("a | b", false),
    ("a | b, c", false),
    ("a (>= 1) [amd64] <x>, b", false),
    ("a,\n b", false),
    (" a , b ", false),
    ("a, , b", false),
    ("a,", false),
    ("a:any (<< 2:1.0~rc1) | b [!i386 !arm64] <!x y> <z>", false),
    ("${s:V}, a", true),
    ("a, ${s:V}", true),
];

/// values assembled by the constructors instead of the parser
pub const CTOR_INITS: [&str; 8] = ["@new", "@default", "@from-vec", "@from-entry", "@from-empty-vec", "@normalised:b (>> 1) | a, c:any (<< 2:1~x) [!amd64] <!p q>", "@normalised:a (>= 1), b", "@normalised:${s:V}, b, a | c (= 1)"];

/// Layout templates: '^' = whitespace at the field's start/end (SEP_WS), ',' = comma with whitespace before (SEP_WS) and
/// after (SEP_WS1), '|' = pipe with whitespace before and after (SEP_WS1), '_' = whitespace between the parts of a relation
/// (PART_WS), '~' = whitespace between list items (ITEM_WS); everything else is literal.  All names are distinct so that an
/// operation on the wrong neighbour is visible in the model.
pub const TEMPLATES: [(&str, bool); 8] = [
    ("^a_(>= 1)|b:any_[amd64~!i386],c_<x~!y> <z>|d^", false),
    ("^a,b|c|d^", false),
    ("^a,b,c^", false),
    ("^a|b,,c^", false),
    ("^,a|b^", false),
    ("^a|b,c,^", false),
    ("^${s:V},a|b,c^", true),
    ("^a|b,${s:V},c|d^", true),
];

enum Pc {
    Lit(String),
    Slot(&'static [&'static str]),
}
fn template_pieces(t: &str) -> Vec<Pc> {
    let mut out: Vec<Pc> = vec![];
    let lit = |out: &mut Vec<Pc>, c: char| {
        if let Some(Pc::Lit(s)) = out.last_mut() {
            s.push(c);
        } else {
            out.push(Pc::Lit(c.to_string()));
        }
    };
    for c in t.chars() {
        match c {
            '^' => out.push(Pc::Slot(&SEP_WS)),
            ',' => {
                out.push(Pc::Slot(&SEP_WS));
                out.push(Pc::Lit(",".into()));
                out.push(Pc::Slot(&SEP_WS1));
            }
            '|' => {
                out.push(Pc::Slot(&SEP_WS1));
                out.push(Pc::Lit("|".into()));
                out.push(Pc::Slot(&SEP_WS1));
            }
            '_' => out.push(Pc::Slot(&PART_WS)),
            '~' => out.push(Pc::Slot(&ITEM_WS)),
            c => lit(&mut out, c),
        }
    }
    out
}
fn template_menus(t: &str) -> Vec<usize> {
    template_pieces(t).iter().filter_map(|p| if let Pc::Slot(m) = p { Some(m.len()) } else { None }).collect()
}
fn template_render(t: &str, v: &[usize]) -> String {
    let mut s = String::new();
    let mut i = 0;
    for p in template_pieces(t) {
        match p {
            Pc::Lit(l) => s.push_str(&l),
            Pc::Slot(m) => {
                s.push_str(m[v[i]]);
                i += 1;
            }
        }
    }
    s
}
/// (template, first deviating slot) pairs: one shard each
fn layout_shards() -> Vec<(usize, Option<usize>)> {
    let mut v = vec![];
    for (ti, (t, _)) in TEMPLATES.iter().enumerate() {
        v.push((ti, None));
        for i in 0..template_menus(t).len() {
            v.push((ti, Some(i)));
        }
    }
    v
}
/// layouts explored per tier: (deviations, depth) pairs
fn layout_plan(t: Tier) -> Vec<(usize, usize)> {
    match t {
        Tier::Quick => vec![(1, 1)],
        Tier::Thorough => vec![(2, 1), (1, 2)],
    }
}

const MAX_ENTRIES: usize = 3;
const MAX_ALTS: usize = 3;

/// `light`: the reduced menu used for the deepest steps of the thorough tier (2 entry operands, 3 relation operands,
/// 5 relation edits, no operation pairs and no kept handles) - the full menu is used for the first steps
fn ops_for(model: &[Vec<MRel>], _t: Tier, light: bool) -> Vec<ROp> {
    let n = model.len();
    let mut ops = vec![];
    let eops: &[EOperand] = if light { &EOPERANDS[..2] } else { &EOPERANDS };
    let rops: &[ROperand] = if light { &ROPERANDS[..3] } else { &ROPERANDS[..] };
    let edits: &[RelEdit] = if light { &[RelEdit::SetVersion, RelEdit::ClearVersion, RelEdit::SetArchqual, RelEdit::SetArchs1, RelEdit::AddProfile] } else { &REL_EDITS };
    if n < MAX_ENTRIES {
        for o in eops {
            ops.push(ROp::Push(*o));
        }
        for i in 0..=n {
            for o in eops {
                ops.push(ROp::Insert(i, *o));
            }
        }
    }
    for i in 0..n {
        for o in eops {
            ops.push(ROp::Replace(i, *o));
        }
        ops.push(ROp::RemoveEntry(i));
        ops.push(ROp::EntrySelfRemove(i));
        if !light && n < MAX_ENTRIES && model[i].len() < MAX_ALTS {
            for at in 0..=n {
                ops.push(ROp::KeptEntry(i, at, ROperand::Simple));
            }
        }
    }
    for e in 0..n {
        let m = model[e].len();
        for a in eops_for(m) {
            if light {
                break;
            }
            let m2 = eop_len_after(m, &a);
            if m2 == 0 {
                continue; // an emptied entry may be dropped by the implementation: no second step through the handle
            }
            for b in eops_for(m2) {
                ops.push(ROp::EntryPair(e, a, b));
            }
        }
        if m < MAX_ALTS {
            for o in rops {
                ops.push(ROp::EPush(e, *o));
            }
        }
        for j in 0..m {
            for a in eops_for(m) {
                // the entry operation must leave relation j in place
                let touches = match a {
                    EOp::Replace(x, _) | EOp::Remove(x) => x == j,
                    EOp::Push(_) => false,
                };
                if light || touches || !matches!(a, EOp::Push(ROperand::Simple) | EOp::Replace(_, ROperand::Simple) | EOp::Remove(_)) {
                    continue;
                }
                for ed in [RelEdit::SetVersion, RelEdit::SetArchs1, RelEdit::AddProfile, RelEdit::DropConstraint] {
                    ops.push(ROp::KeptRel(e, j, a, ed));
                }
            }
            for o in rops {
                ops.push(ROp::EReplace(e, j, *o));
            }
            ops.push(ROp::ERemove(e, j));
            ops.push(ROp::RelRemove(e, j));
            for ed in edits {
                ops.push(ROp::Rel(e, j, *ed));
            }
            for a in REROOTING {
                if light {
                    break;
                }
                for b in REL_EDITS {
                    ops.push(ROp::RelPair(e, j, a, b));
                }
                for b in REROOTING {
                    ops.push(ROp::TwoHandles(e, j, a, b));
                }
                if model.len() < MAX_ENTRIES {
                    ops.push(ROp::KeptRelAcrossField(e, j, a));
                }
            }
        }
    }
    ops
}

/// Apply to the live root; returns Err when the op is not applicable (index out of range in the live object).
fn live_apply(root: &mut ll::Relations, op: &ROp) -> Result<Ret, String> {
    let get_e = |root: &ll::Relations, e: usize| root.get_entry(e).ok_or_else(|| format!("live field has no entry {}", e));
    match op {
        ROp::Push(o) => root.push(mk_entry(*o).0),
        ROp::Insert(i, o) => root.insert(*i, mk_entry(*o).0),
        ROp::Replace(i, o) => {
            get_e(root, *i)?;
            root.replace(*i, mk_entry(*o).0)
        }
        ROp::RemoveEntry(i) => {
            get_e(root, *i)?;
            let gone = root.remove_entry(*i);
            return Ok(Ret::Entry(gone.relations().map(|r| read_ll_rel(&r)).collect()));
        }
        ROp::EntrySelfRemove(i) => {
            let mut en = get_e(root, *i)?;
            en.remove();
        }
        ROp::EntryPair(e, a, b) => {
            let mut en = get_e(root, *e)?;
            eop_live(&mut en, a)?;
            eop_live(&mut en, b)?;
        }
        ROp::KeptRel(e, j, a, ed) => {
            let mut en = get_e(root, *e)?;
            let mut kept = en.get_relation(*j).ok_or("no such relation")?;
            eop_live(&mut en, a)?;
            apply_edit_live(&mut kept, *ed);
        }
        ROp::KeptEntry(e, at, o) => {
            let mut kept = get_e(root, *e)?;
            root.insert(*at, mk_entry(EOperand::Parsed).0);
            kept.push(mk_rel(*o).0);
        }
        ROp::EPush(e, o) => get_e(root, *e)?.push(mk_rel(*o).0),
        ROp::EReplace(e, j, o) => {
            let mut en = get_e(root, *e)?;
            en.get_relation(*j).ok_or("no such relation")?;
            en.replace(*j, mk_rel(*o).0)
        }
        ROp::ERemove(e, j) => {
            let en = get_e(root, *e)?;
            en.get_relation(*j).ok_or("no such relation")?;
            let gone = en.remove_relation(*j);
            return Ok(Ret::Rel(read_ll_rel(&gone)));
        }
        ROp::RelRemove(e, j) => {
            let mut r = get_e(root, *e)?.get_relation(*j).ok_or("no such relation")?;
            r.remove();
        }
        ROp::Rel(e, j, ed) => {
            let mut r = get_e(root, *e)?.get_relation(*j).ok_or("no such relation")?;
            if *ed == RelEdit::DropConstraint {
                return Ok(Ret::Bool(r.drop_constraint()));
            }
            apply_edit_live(&mut r, *ed);
        }
        ROp::RelPair(e, j, a, b) => {
            let mut r = get_e(root, *e)?.get_relation(*j).ok_or("no such relation")?;
            apply_edit_live(&mut r, *a);
            apply_edit_live(&mut r, *b);
        }
        ROp::TwoHandles(e, j, a, b) => {
            let mut h1 = get_e(root, *e)?.get_relation(*j).ok_or("no such relation")?;
            let mut h2 = get_e(root, *e)?.get_relation(*j).ok_or("no such relation")?;
            apply_edit_live(&mut h1, *a);
            apply_edit_live(&mut h2, *b);
        }
        ROp::KeptRelAcrossField(e, j, ed) => {
            let mut kept = get_e(root, *e)?.get_relation(*j).ok_or("no such relation")?;
            root.insert(0, mk_entry(EOperand::Parsed).0);
            apply_edit_live(&mut kept, *ed);
        }
    }
    Ok(Ret::Nothing)
}

fn model_apply(m: &mut Vec<Vec<MRel>>, op: &ROp) -> Result<(), String> {
    let oob = || "model index out of range".to_string();
    match op {
        ROp::Push(o) => m.push(mk_entry(*o).1),
        ROp::Insert(i, o) => m.insert((*i).min(m.len()), mk_entry(*o).1),
        ROp::Replace(i, o) => *m.get_mut(*i).ok_or_else(oob)? = mk_entry(*o).1,
        ROp::RemoveEntry(i) | ROp::EntrySelfRemove(i) => {
            if *i >= m.len() {
                return Err(oob());
            }
            m.remove(*i);
        }
        ROp::EntryPair(e, a, b) => {
            let en = m.get_mut(*e).ok_or_else(oob)?;
            eop_model(en, a)?;
            eop_model(en, b)?;
        }
        ROp::KeptRel(e, j, a, ed) => {
            let en = m.get_mut(*e).ok_or_else(oob)?;
            if *j >= en.len() {
                return Err(oob());
            }
            // where relation j is after the entry operation
            let j2 = match a {
                EOp::Remove(x) if *x < *j => *j - 1,
                _ => *j,
            };
            eop_model(en, a)?;
            apply_edit_model(en.get_mut(j2).ok_or_else(oob)?, *ed);
        }
        ROp::KeptEntry(e, at, o) => {
            if *e >= m.len() {
                return Err(oob());
            }
            let at2 = (*at).min(m.len());
            m.insert(at2, mk_entry(EOperand::Parsed).1);
            let e2 = if at2 <= *e { *e + 1 } else { *e };
            m.get_mut(e2).ok_or_else(oob)?.push(mk_rel(*o).1);
        }
        ROp::EPush(e, o) => m.get_mut(*e).ok_or_else(oob)?.push(mk_rel(*o).1),
        ROp::EReplace(e, j, o) => *m.get_mut(*e).ok_or_else(oob)?.get_mut(*j).ok_or_else(oob)? = mk_rel(*o).1,
        ROp::ERemove(e, j) | ROp::RelRemove(e, j) => {
            let en = m.get_mut(*e).ok_or_else(oob)?;
            if *j >= en.len() {
                return Err(oob());
            }
            en.remove(*j);
        }
        ROp::Rel(e, j, ed) => apply_edit_model(m.get_mut(*e).ok_or_else(oob)?.get_mut(*j).ok_or_else(oob)?, *ed),
        ROp::RelPair(e, j, a, b) | ROp::TwoHandles(e, j, a, b) => {
            let r = m.get_mut(*e).ok_or_else(oob)?.get_mut(*j).ok_or_else(oob)?;
            apply_edit_model(r, *a);
            apply_edit_model(r, *b);
        }
        ROp::KeptRelAcrossField(e, j, ed) => {
            if *e >= m.len() || *j >= m[*e].len() {
                return Err(oob());
            }
            m.insert(0, mk_entry(EOperand::Parsed).1);
            apply_edit_model(m.get_mut(*e + 1).ok_or_else(oob)?.get_mut(*j).ok_or_else(oob)?, *ed);
        }
    }
    Ok(())
}

fn nonempty(m: &[Vec<MRel>]) -> Vec<Vec<MRel>> {
    m.iter().filter(|e| !e.is_empty()).cloned().collect()
}

fn dump(root: &ll::Relations) -> String {
    let (toks, mutable, parent) = root.verif_dump();
    let mut s = String::new();
    for (k, t, d) in toks {
        s.push_str(&format!("{}{:?}{:?};", d, k, t));
    }
    s.push_str(&format!("|{}{}", mutable as u8, parent as u8));
    s
}

/// Initial field: a text read by parse_relaxed, or ("@...") a value assembled by the constructors.
fn build_init(init: &str, subst: bool) -> Result<ll::Relations, String> {
    let e_ab = || ll::Entry::from(vec![ll::Relation::simple("a"), ll::Relation::from_str("b (>= 1)").unwrap()]);
    Ok(match init {
        "@new" => ll::Relations::new(),
        "@default" => ll::Relations::default(),
        "@from-vec" => ll::Relations::from(vec![e_ab(), ll::Entry::from(ll::Relation::simple("c"))]),
        "@from-entry" => ll::Relations::from(e_ab()),
        "@from-empty-vec" => ll::Relations::from(Vec::<ll::Entry>::new()),
        n if n.starts_with("@normalised:") => {
            // a tree assembled by wrap_and_sort (its tokens differ from the parser's, e.g. one token per operator)
            let (root, errs) = ll::Relations::parse_relaxed(&n["@normalised:".len()..], true);
            if !errs.is_empty() {
                return Err("initial field does not parse".into());
            }
            root.wrap_and_sort()
        }
        _ => {
            let (root, errs) = ll::Relations::parse_relaxed(init, subst);
            if !errs.is_empty() {
                return Err("initial field does not parse".into());
            }
            root
        }
    })
}

/// No duplicated, dangling or leading/trailing separator (whitespace ignored).
fn separators_sane(text: &str) -> bool {
    let t: String = text.chars().filter(|c| !c.is_whitespace()).collect();
    !(t.starts_with(',') || t.ends_with(',') || t.starts_with('|') || t.ends_with('|') || t.contains(",,") || t.contains("||") || t.contains(",|") || t.contains("|,"))
}

/// Replay the history; check the invariants for the last step.
fn run(c: &C11Case) -> Result<(Vec<Viol>, String), String> {
    let mut root = build_init(&c.init, c.subst)?;
    let mut model: Vec<Vec<MRel>> = read_ll(&root).entries;
    let substvars = read_ll(&root).substvars;
    let n = c.ops.len();
    let mut out = vec![];
    let mut before_entries: Vec<String> = vec![];
    let mut model_before = model.clone();
    let mut text_before = String::new();
    let mut last_ret = Ret::Nothing;
    for (i, op) in c.ops.iter().enumerate() {
        // keep the model's treatment of an emptied entry in step with the live object (either outcome is allowed)
        if i + 1 == n {
            before_entries = root.entries().map(|e| e.to_string()).collect();
            model_before = model.clone();
            text_before = root.to_string();
        }
        last_ret = live_apply(&mut root, op)?;
        model_apply(&mut model, op)?;
        let live_n = root.entries().count();
        if matches!(op, ROp::ERemove(..) | ROp::RelRemove(..) | ROp::EntryPair(..)) && live_n + 1 == model.len() {
            if let Some(pos) = model.iter().position(|e| e.is_empty()) {
                model.remove(pos);
            }
        }
        // an entry that is empty in the model but still present in the live object stays (as an empty list)
    }
    let text = root.to_string();
    let ctx = |w: &str| format!("init {:?} ops {:?} -> {:?}: {}", c.init, c.ops, text, w);
    // (1) strict re-parse equals the model
    let (re, errs) = ll::Relations::parse_relaxed(&text, c.subst);
    if !errs.is_empty() {
        out.push(viol("prints-well-formed", ctx(&format!("parse errors {:?}", errs))));
    } else {
        let got = read_ll(&re);
        if nonempty(&got.entries) != nonempty(&model) {
            out.push(viol("reparse-equals-model", ctx(&format!("re-parse {:?} model {:?}", got.entries, model))));
        }
        if got.substvars != substvars {
            out.push(viol("substvars-kept", ctx(&format!("substvars {:?} -> {:?}", substvars, got.substvars))));
        }
    }
    // (2) the live object reports the model
    let live = read_ll(&root);
    if nonempty(&live.entries) != nonempty(&model) {
        out.push(viol("live-equals-model", ctx(&format!("live {:?} model {:?}", live.entries, model))));
    }
    if root.len() != live.entries.len() || root.is_empty() != live.entries.is_empty() {
        out.push(viol("len-is-empty", ctx(&format!("len() {} is_empty() {} but entries() yields {}", root.len(), root.is_empty(), live.entries.len()))));
    }
    for (e, en) in root.entries().enumerate() {
        let k = en.relations().count();
        if en.len() != k || en.is_empty() != (k == 0) {
            out.push(viol("len-is-empty", ctx(&format!("entry {}: len() {} is_empty() {} but relations() yields {}", e, en.len(), en.is_empty(), k))));
        }
    }
    // (2b) what the operation handed back
    if n > 0 {
        let want = match &c.ops[n - 1] {
            ROp::RemoveEntry(i) => model_before.get(*i).map(|e| Ret::Entry(e.clone())),
            ROp::ERemove(e, j) => model_before.get(*e).and_then(|en| en.get(*j)).map(|r| Ret::Rel(r.clone())),
            ROp::Rel(e, j, RelEdit::DropConstraint) => model_before.get(*e).and_then(|en| en.get(*j)).map(|r| Ret::Bool(r.version.is_some())),
            _ => None,
        };
        if let Some(w) = want {
            if w != last_ret {
                out.push(viol("returned-value", ctx(&format!("the operation returned {:?}, the model says {:?}", last_ret, w))));
            }
        }
    }
    // (2c) separators are never duplicated or left dangling: a field without empty entries stays without
    if n > 0 && separators_sane(&text_before) && model_before.iter().all(|e| !e.is_empty()) && model.iter().all(|e| !e.is_empty()) && !separators_sane(&text) {
        out.push(viol("separators", ctx(&format!("the field was {:?} before the last operation; now a separator is duplicated or dangling", text_before))));
    }
    // (3) untouched entries keep their text
    if n > 0 {
        let after_entries: Vec<String> = root.entries().map(|e| e.to_string()).collect();
        let op = &c.ops[n - 1];
        // map: which entries of `before` are untouched, and where they are afterwards
        let nb = before_entries.len();
        let untouched: Vec<(usize, usize)> = match op {
            ROp::Push(_) => (0..nb).map(|i| (i, i)).collect(),
            ROp::Insert(at, _) => (0..nb).map(|i| (i, if i >= (*at).min(nb) { i + 1 } else { i })).collect(),
            ROp::Replace(at, _) => (0..nb).filter(|i| i != at).map(|i| (i, i)).collect(),
            ROp::RemoveEntry(at) | ROp::EntrySelfRemove(at) => (0..nb).filter(|i| i != at).map(|i| (i, if i > *at { i - 1 } else { i })).collect(),
            ROp::KeptRel(..) | ROp::KeptEntry(..) | ROp::KeptRelAcrossField(..) => vec![],
            ROp::EntryPair(e, a, b) if matches!(a, EOp::Remove(_)) || matches!(b, EOp::Remove(_)) => {
                let dropped = after_entries.len() + 1 == nb;
                (0..nb).filter(|i| i != e).map(|i| (i, if dropped && i > *e { i - 1 } else { i })).collect()
            }
            ROp::EPush(e, _) | ROp::EReplace(e, ..) | ROp::Rel(e, ..) | ROp::RelPair(e, ..) | ROp::TwoHandles(e, ..) | ROp::EntryPair(e, ..) => (0..nb).filter(|i| i != e).map(|i| (i, i)).collect(),
            ROp::ERemove(e, _) | ROp::RelRemove(e, _) => {
                let dropped = after_entries.len() + 1 == nb;
                (0..nb).filter(|i| i != e).map(|i| (i, if dropped && i > *e { i - 1 } else { i })).collect()
            }
        };
        // only meaningful when the live entry list corresponds to the model's non-empty entries
        if nb == nonempty(&model_before).len() || nb == model_before.len() {
            for (b, a) in untouched {
                if after_entries.get(a) != before_entries.get(b) {
                    out.push(viol("untouched-entries-keep-text", ctx(&format!("entry {} was {:?}, is now {:?} (entries before {:?}, after {:?})", b, before_entries.get(b), after_entries.get(a), before_entries, after_entries))));
                    break;
                }
            }
        }
    }
    Ok((out, format!("{}|{:?}", dump(&root), model)))
}

pub struct C11(pub std::sync::atomic::AtomicU64);

fn depths(t: Tier) -> (usize, usize) {
    t.pick((2, 1), (3, 2))
}

impl C11 {
    /// breadth-first search over edit histories from one initial field
    fn bfs(&self, t: Tier, init: &str, subst: bool, nocache: bool, depth: usize, full_steps: usize, f: &mut dyn FnMut(&C11Case) -> Verdict) {
        let mut seen: HashSet<String> = HashSet::new();
        let root = C11Case { init: init.to_string(), subst, ops: vec![], nocache };
        if let Some(k) = f(&root).key {
            seen.insert(k);
        }
        let model_of = |ops: &[ROp]| -> Vec<Vec<MRel>> {
            // the model after a history (mirrors run(), without the live object's tie-break: conservative menu)
            let mut m = build_init(init, subst).map(|r| read_ll(&r).entries).unwrap_or_default();
            for op in ops {
                let _ = model_apply(&mut m, op);
                m.retain(|e| !e.is_empty());
            }
            m
        };
        let mut frontier: Vec<Vec<ROp>> = vec![vec![]];
        for step in 0..depth {
            let mut next = vec![];
            for hist in &frontier {
                for op in ops_for(&model_of(hist), t, step >= full_steps) {
                    let mut ops = hist.clone();
                    ops.push(op);
                    let case = C11Case { init: init.to_string(), subst, ops, nocache };
                    let v = f(&case);
                    if v.violated {
                        continue;
                    }
                    if nocache {
                        next.push(case.ops);
                    } else if let Some(k) = v.key {
                        if seen.insert(k) {
                            self.0.fetch_add(1, std::sync::atomic::Ordering::Relaxed);
                            next.push(case.ops);
                        }
                    }
                }
            }
            frontier = next;
        }
    }
}

impl Prop for C11 {
    type Case = C11Case;
    fn id(&self) -> &'static str {
        "C11"
    }
    fn level(&self) -> &'static str {
        "model_checking"
    }
    fn rule(&self, _t: Tier) -> String {
        "breadth-first search over histories of Relations::{push,insert,replace,remove_entry}, Entry::{push,replace,remove_relation}, Relation::remove and Relation::{set_version,drop_constraint,set_archqual,set_architectures,add_profile} (single edits through fresh handles and pairs of edits through one kept handle), with every valid index and operands built by parsing, constructors, the builder and From<lossy>; each state is re-reached by replay on a live object; after every transition the printed field must parse strictly to the list-of-lists model, the live object must report the model, untouched entries and substvars keep their text; state key = complete tree walk + handle flags + model; no-cache cross-check pass to a smaller depth; the first two steps from the fixed starts (the first step from a layout-template start) use the full operation menu, deeper steps a reduced one; non-trivial = distinct cached state at depth >= 1".into()
    }
    fn bounds(&self, t: Tier) -> Value {
        let (dc, dn) = depths(t);
        json!({"initial_fields": INITS.iter().map(|x| x.0).collect::<Vec<_>>(), "depth_cached": dc, "depth_nocache": dn, "max_entries": MAX_ENTRIES, "max_alternatives": MAX_ALTS,
               "ops_at_a_2x2_field": ops_for(&vec![vec![mrel("a"), mrel("b")], vec![mrel("c"), mrel("d")]], t, false).len(), "light_ops_at_a_2x2_field": ops_for(&vec![vec![mrel("a"), mrel("b")], vec![mrel("c"), mrel("d")]], t, true).len(), "full_menu_steps": {"fixed_and_constructor_starts": 2, "layout_template_starts": 1}})
    }
    fn assumptions(&self) -> Vec<String> {
        vec![
            "out-of-range indices are not explored (they are unwrap()s mirroring Vec panics)".into(),
            "removing an entry's only alternative may either drop the entry or leave an empty one; the model follows the live object's choice and comparisons drop empty entries".into(),
            "a handle kept across another operation is exercised in two shapes: a relation handle across an alternative-level operation on its entry, an entry handle across an insertion into the field".into(),
        ]
    }
    fn n_shards(&self, _t: Tier) -> usize {
        (INITS.len() + CTOR_INITS.len()) * 2 + layout_shards().len()
    }
    fn explore(&self, t: Tier, shard: usize, f: &mut dyn FnMut(&C11Case) -> Verdict) {
        let fixed = (INITS.len() + CTOR_INITS.len()) * 2;
        if shard < fixed {
            let i = shard / 2;
            let (init, subst) = if i < INITS.len() { INITS[i] } else { (CTOR_INITS[i - INITS.len()], CTOR_INITS[i - INITS.len()].contains("${")) };
            let nocache = shard % 2 == 1;
            let (dc, dn) = depths(t);
            self.bfs(t, init, subst, nocache, if nocache { dn } else { dc }, 2, f);
        } else {
            let (ti, first) = layout_shards()[shard - fixed];
            let (tpl, subst) = TEMPLATES[ti];
            let menus = template_menus(tpl);
            for (k, depth) in layout_plan(t) {
                crate::kdev::kdev_shard(&menus, k, first, &mut |v| {
                    let init = template_render(tpl, v);
                    self.bfs(t, &init, subst, false, depth, 1, f);
                });
            }
        }
    }
    fn check(&self, c: &C11Case, st: &mut Stats) -> Vec<Viol> {
        st.transitions += 1;
        match guard(500_000, || run(c)) {
            Ok(Ok((vs, key))) => {
                st.key = Some(key);
                if vs.is_empty() {
                    st.outcome("ok");
                }
                vs
            }
            Ok(Err(_)) => {
                st.outcome("not-applicable");
                vec![]
            }
            Err(p) => {
                st.outcome("panic");
                vec![viol(if is_budget(&p) { "hang" } else { "panic" }, format!("init {:?} ops {:?}: {}", c.init, c.ops, panic_detail(&p)))]
            }
        }
    }
    fn shrinks(&self, c: &C11Case) -> Vec<C11Case> {
        let mut out = vec![];
        for i in 0..c.ops.len() {
            let mut ops = c.ops.clone();
            ops.remove(i);
            out.push(C11Case { ops, nocache: false, ..c.clone() });
        }
        let cur = INITS.iter().position(|x| x.0 == c.init).unwrap_or(INITS.len());
        for (init, subst) in INITS.iter().take(cur) {
            out.push(C11Case { init: init.to_string(), subst: *subst, ops: c.ops.clone(), nocache: false });
        }
        for (i, op) in c.ops.iter().enumerate() {
            let simpler: Vec<ROp> = match op {
                ROp::Push(o) if *o != EOperand::Parsed => vec![ROp::Push(EOperand::Parsed)],
                ROp::Insert(a, o) if *o != EOperand::Parsed => vec![ROp::Insert(*a, EOperand::Parsed)],
                ROp::Replace(a, o) if *o != EOperand::Parsed => vec![ROp::Replace(*a, EOperand::Parsed)],
                ROp::EPush(e, o) if *o != ROperand::Simple => vec![ROp::EPush(*e, ROperand::Simple)],
                ROp::EReplace(e, j, o) if *o != ROperand::Simple => vec![ROp::EReplace(*e, *j, ROperand::Simple)],
                ROp::RelPair(e, j, a, b) | ROp::TwoHandles(e, j, a, b) => vec![ROp::Rel(*e, *j, *a), ROp::Rel(*e, *j, *b)],
                ROp::KeptRelAcrossField(e, j, ed) => vec![ROp::Rel(*e, *j, *ed)],
                ROp::EntryPair(e, a, b) => [a, b]
                    .iter()
                    .map(|x| match x {
                        EOp::Push(o) => ROp::EPush(*e, *o),
                        EOp::Replace(j, o) => ROp::EReplace(*e, *j, *o),
                        EOp::Remove(j) => ROp::ERemove(*e, *j),
                    })
                    .collect(),
                _ => vec![],
            };
            for s in simpler {
                let mut ops = c.ops.clone();
                ops[i] = s;
                out.push(C11Case { ops, nocache: false, ..c.clone() });
            }
        }
        out
    }
    fn snippet(&self, c: &C11Case, v: &Viol) -> String {
        format!(
            "// C11 replay: let (mut r, _) = Relations::parse_relaxed({:?}, {});\n// apply, through handles fetched from r right before each step: {}\n// then print r, re-parse and compare with a Vec<Vec<..>> model.\n// clause {}: {}\n",
            c.init,
            c.subst,
            serde_json::to_string(&c.ops).unwrap(),
            v.clause,
            v.detail.replace('\n', "\\n")
        )
    }
    fn states_from(&self, m: &Stats) -> Option<(u64, u64)> {
        Some((self.0.load(std::sync::atomic::Ordering::Relaxed).max(1), m.transitions.max(1)))
    }
    fn distinct_override(&self) -> Option<u64> {
        Some(self.0.load(std::sync::atomic::Ordering::Relaxed))
    }
    fn required_outcomes(&self) -> Vec<&'static str> {
        vec!["ok"]
    }
}
