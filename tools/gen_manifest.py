#!/usr/bin/env python3
"""Regenerates /verif/MANIFEST.json from the table below (single source of truth for the per-check texts)."""
import json, os, subprocess
ROOT = os.path.dirname(os.path.dirname(os.path.abspath(__file__)))
ALL = ["C%02d" % i for i in range(1, 21)]

def hook_commits():
    try:
        out = subprocess.check_output(["git", "-C", "/repo", "log", "--format=%H %s"], text=True)
        return [l.split()[0] for l in out.splitlines() if " verif-hooks:" in l]
    except Exception:
        return []

CHECKS = {
 "C01": dict(
   category="model_checking", design_ref="DESIGN.md §3 C01, §2.3",
   technique="stateless exhaustive exploration of the real lexer/parser over the full input trie (character classes to length N, line templates to L lines)",
   text="Every string over the 10 (thorough: 11) deb822 character classes up to length 6 (thorough 8), every sequence of 16 line templates x 3 terminators up to 2/3 lines and x LF up to 4/5 lines, and every lexer-mode witness x every ASCII / sample non-ASCII character is executed on the real strict, tolerant and Read-based readers and the lexer; the printed tree, the strict/tolerant agreement and the token partition are compared with the input itself. Exhaustive within the bound, so any lexer-mode x class or parser-recovery defect reachable by such a string is found; beyond the bound the argument is finite control + data independence.",
   note="Class abstraction validated against the implementation per run (class_validation block). Strings longer than the bound are not explored."),
 "C02": dict(
   category="model_checking", design_ref="DESIGN.md §3 C02, §2.3, §2.6",
   technique="stateless exhaustive exploration of 60 real text-parsing entry points over full input tries (native character-class alphabets to length N, token/line sequences), pumped inputs under a loop-tick budget, allocation cap and stall watchdog, and k-deviation corrupted typed documents",
   text="For each of 60 entry points (deb822 documents/paragraphs, relationship fields, control/apt/changes/buildinfo/removal files, copyright, DEP-3, APT sources, PGP unwrapping, VCS fields, identities and every typed field value): every string over its native character-class alphabet up to length 5/4/4 (thorough 6/5/5; 84M calls), every sequence of its line templates or tokens up to 2-3 (thorough 3-4) symbols, pumped inputs w^k (all w to length 2-3, k up to 64/512), unbalanced nests and 20-100 kB single lines, for the VCS-location codecs every sequence of 4-6 tokens of the value grammar, and for typed documents the all-valid document with <= 1 (thorough 2) fields absent or replaced by 7 garbage values or up to 6 near-valid values (pieces of the field's own valid values). Every call must return Ok or Err: a panic, a parser loop exceeding the quadratic tick budget, the 2 GiB allocation cap, a 60 s stall or 10 s on a pumped input is a violation.",
   note="Dependencies (regex, url, chrono, debversion, rowan) carry no tick sites: hangs there are caught by watchdog/time limit only. The polynomial-time clause is decided against a fixed quadratic envelope (DESIGN §5)."),
 "C03": dict(
   category="exploration", design_ref="DESIGN.md §3 C03, §2.4",
   technique="bounded exhaustive enumeration (all layout vectors with <= k deviations per PxF skeleton) of generated documents carrying their intended reading, executed on the real strict reader",
   text="Every document whose layout differs from the simplest one in at most k slots (k=2 quick; 3-4 thorough; 9 skeletons of 1-3 paragraphs x 1-3 fields; slots: comments, names incl. duplicates and odd characters, colon spacing, first/continuation lines, indents, separators, trivia, final newline) is generated together with its model and read by the strict reader; paragraphs, items, keys, get/get_all/contains_key and Paragraph::from_str are compared with the model; every k<=1 document with one junk line inserted at every position must be rejected; every printable ASCII character that deb822 allows in (and at the start of) a field name is accepted there. Complete for all k-way interactions of layout choices, which unit tests sample one at a time.",
   note="Model decisions in DESIGN §3 C03 (value = non-empty lines). Field names/values outside the menus are not explored."),
 "C04": dict(
   category="model_checking", design_ref="DESIGN.md §3 C04, §2.5",
   technique="explicit-state breadth-first search over edit histories replayed on live rowan objects, list-of-pairs reference model, state cache on (full syntax tree, handle flags, model) plus no-cache cross-check pass",
   text="From 28 initial states (parsed layouts with comments, duplicates, multi-line values, missing final newline, several paragraphs; paragraphs built from pairs; stand-alone paragraphs; Paragraph::from_str handles) every history of set/insert/remove/rename over 3 names x 3-4 values, through fresh and through early paragraph handles, is explored breadth-first to depth 2 (quick) / 4 (thorough); after every transition the live object must equal the Vec model, bytes outside the touched field must be unchanged (independent line scanner), early handles must see the edit, and the printed document must re-read to the model. Finds sequence- and layout-dependent defects no single-operation unit test reaches.",
   note="State-cache soundness is argued in DESIGN §2.5 and cross-checked by an uncached pass; empty paragraphs are dropped in re-read comparisons; histories deeper than the bound and other names/values are not explored."),
 "C05": dict(
   category="model_checking", design_ref="DESIGN.md §3 C05, §2.5",
   technique="explicit-state breadth-first search over paragraph add/insert/remove histories (interleaved with field edits) replayed on live objects against a Vec-of-paragraphs model",
   text="From 24 initial documents (empty, 1-3 paragraphs, leading/middle/trailing comments attached or detached, 1-4 blank separators, trailing blank lines, no final newline, built documents with an empty paragraph) every history of add_paragraph, insert_paragraph(i) for every i in 0..=len+1, remove_paragraph(i) for every i in 0..=len (bare and 'then set a field through the returned handle') and three field edits per paragraph is explored to depth 3 (quick) / 5 (thorough); paragraphs() must equal the list model, other paragraphs' text and all comments outside a removed paragraph must be unchanged, and the printed document must re-read to the same non-empty paragraphs.",
   note="Comment lines that the removed paragraph's own handle prints may disappear with it (DESIGN §3 C05); paragraphs without fields are invisible in text and dropped from re-read comparisons."),
 "C06": dict(
   category="model_checking", design_ref="DESIGN.md §3 C06",
   technique="stateless exhaustive exploration of both real readers over the full input trie (C01 spaces) plus all C03 documents; differential oracle",
   text="Every string of C01's spaces is read by the lossy and the lossless reader; whenever both accept, paragraphs, names and non-blank value lines must be equal and lossy::Paragraph::from_str must agree; every C03 document must be accepted by both readers with equal content. The outcome histogram (both-accept / only-one / both-reject) is in the evidence and a run without both-accept cases fails as vacuous.",
   note="A lossy reader crash on a string that is not a well-formed document is left to C02."),
 "C07": dict(
   category="exploration", design_ref="DESIGN.md §3 C07, §2.4",
   technique="bounded exhaustive enumeration: all documents with <= k layout deviations x the full product of 648 reformatting settings, executed on the real wrap_and_sort entry points with re-read, model and second-application oracles",
   text="Every generated document (5 skeletons, <= 1 deviation quick / <= 2 thorough on the small ones; comments before/inside/after paragraphs, multi-line values, duplicates, blank-line layouts) is reformatted under every combination of 4 indentations x immediate_empty_line x 3 one-liner limits x 3 paragraph orders x 3 entry orders x 3 formatters; the result must parse strictly, re-read to what the returned object reports, keep paragraphs/fields (requested order), value lines (or the formatter's), every comment on its own line in front of the same field/paragraph, indent continuation lines exactly, separate paragraphs by one blank line, and be a fixed point; Paragraph- and Entry-level entry points are cross-checked; 8 control files x 24 settings go through Control/Source/Binary::wrap_and_sort.",
   note="Comparators/formatters are limited to ones whose expected effect can be computed from the model (names and values only; layout-insensitive). Control wrappers compare relation fields as whitespace-insensitive multisets."),
 "C10": dict(
   category="exploration", design_ref="DESIGN.md §3 C10, §2.4",
   technique="bounded exhaustive enumeration (k-deviation over all slots of ExA skeletons + full product of relation parts) of generated relationship fields carrying their intended reading, executed on both real readers",
   text="Every relationship field with <= k deviations (k=1-2 quick, 2-3 thorough) over entry kind (relation/empty/substvar), separator whitespace incl. newlines, trailing comma and, per relation, name, qualifier, 5 operators x 3 versions (epoch, '~'), plain and negated architecture lists, single/multi-term/negated profile groups and inter-part whitespace - plus the full 2700-relation product for one-relation fields x every single whitespace deviation - is read by the lossless reader (strict and tolerant, substvars on/off) and the lossy reader; entries, alternatives and every component must equal the model; every identifier character (alphanumerics, - . + ~) is read back inside a name and inside a version.",
   note="Whitespace is varied only where the statement allows; names/versions outside the menus are not explored."),
 "C11": dict(
   category="model_checking", design_ref="DESIGN.md §3 C11, §2.5",
   technique="explicit-state breadth-first search over relation-field edit histories replayed on live rowan objects against a list-of-lists model; state cache on (full tree walk via the verif_dump hook, handle flags, model) plus no-cache cross-check",
   text="From 13 initial fields (empty, single, alternatives, all optional parts, newline/odd whitespace layouts, empty entries, trailing comma, substvars first/last) every history of Relations::{push,insert,replace,remove_entry} (every valid index, 3 operand constructions), Entry::{push,replace,remove_relation}, Relation::remove and 7 relation-level edits (5 operand constructions incl. builder and From<lossy>; single edits through fresh handles and 28 two-edit sequences through one kept handle) is explored to depth 2 (quick) / 3 (thorough, 3.7M transitions); after every step the printed field must parse strictly to the model, the live object must report the model, and untouched entries and substvars must keep their text.",
   note="Out-of-range indices and handles kept across root-level structural edits are not explored; emptied entries may be dropped or kept (DESIGN §3 C11)."),
 "C12": dict(
   category="exploration", design_ref="DESIGN.md §3 C12",
   technique="exhaustive enumeration of the complete (operator x required x installed) table over a version pool with hard-coded Debian order, and of every AND/OR shape up to 3-4 entries x 3 alternatives, through all evaluators and lookup forms",
   text="Complete single-relation table: {unversioned, <<, <=, =, >=, >>} x required x installed-or-absent over 7 (thorough 10) versions with epochs, revisions, '~' and '+' whose order is hard-coded from deb-version(7) - evaluated by lossless Relations/Entry and lossy Relations/Relation through closure, HashMap and (name, version) lookups, and lookup_version itself on all three forms. Nesting: every field of <= 3 (thorough 4) entries x 1-3 alternatives where each alternative is satisfied / version-mismatched / absent (61k / 2.4M fields) plus the empty field, against all(any(..)); and every entry of 1-3 alternatives on the SAME package (18 constraints each) x 5 installed states. The pool contains explicit zero epochs that equal the epoch-less version.",
   note="The hard-coded version order is the trusted reference."),
 "C13": dict(
   category="exploration", design_ref="DESIGN.md §3 C13",
   technique="bounded exhaustive enumeration of generated relationship fields (same space as C10) through the real wrap_and_sort, with canonical-text, multiset-of-multisets, sortedness and fixed-point oracles",
   text="Every C10 field is normalised; the output must parse strictly, equal the canonical rendering of what it denotes, contain no empty entries, have entries and alternatives sorted by package name (checked with the harness's own comparison), denote the same multiset of entries/alternatives including negations, profile groups and substvars, and normalising the result (live object and re-read) must return identical text.",
   note="Order among equal names and the position of substvars (before or after entries) are not constrained."),
 "C08": dict(
   category="model_checking", design_ref="DESIGN.md §3 C08",
   technique="exhaustive product enumeration of lossy documents through print and both readers, plus explicit-state breadth-first search of paragraph edit histories with an exact state cache (the field vector) against a Vec model",
   text="Print/parse: the full product of lossy documents over 3 names x 16 canonical values (empty value, trailing spaces, Unicode, ':'/'#' inside and leading, multi-line, empty first line, '.' lines) for 1 paragraph x 1-3 fields and 2-3 paragraphs x 1 field (thorough also 2x2: 2.3M documents) is printed and must be re-read as an equal value by the lossy reader, with the same names and non-blank lines by the lossless reader, paragraphs separated by exactly one blank line. Edits: every history of set/insert/remove (3 names x 2 values, with get/len/iter observed after each step) to depth 4 (thorough 6) from 6 initial paragraphs is explored breadth-first against a Vec<(name,value)> model.",
   note="lossy::Deb822 has no public constructor; documents are built by parsing a skeleton and replacing the public field vectors. Values outside the menu are not explored."),
 "C09": dict(
   category="model_checking", design_ref="DESIGN.md §3 C09, §2.3",
   technique="stateless exhaustive exploration of the real relations lexer/parser over the full input trie (21 character classes to length N, 20 multi-character tokens to T tokens), loop-tick budget for non-termination",
   text="Every string over the 21 relation character classes up to length 5 (thorough 6) and every sequence of 20 relation tokens up to 4 (thorough 6) tokens is parsed with substvars off and on, by the strict reader and by the single-entry/single-relation readers; printed text must equal the input, strict must succeed exactly when the tolerant reader reports no error, and a parser loop that exceeds the quadratic tick budget is reported as a hang instead of exhausting memory.",
   note="Identifier characters and 'other' characters are represented by one class member each; strings longer than the bound are not explored."),
 "C14": dict(
   category="exploration", design_ref="DESIGN.md §3 C14",
   technique="exhaustive enumeration of the full product of lossy relation values (720 single relations; all fields of <= 2-3 entries x <= 2 alternatives over a 12-value subset) through print, both readers and the lossy<->lossless conversions",
   text="Every lossy Relation over 2 names x qualifier x 3 version shapes (incl. epoch) x 6 architecture lists (absent, empty, plain, negated) x 71 profile lists (every group shape of 1-3 terms with every negation pattern, one or two groups), and every Relations value of <= 2 (thorough 3) entries x <= 2 alternatives over 12 representative relations, is printed; the lossy reader must return an equal value, the lossless reader the same structure, lossless::Relation::from(v) must print the same text, lossy::Relation::from(lossless::Relation::from(v)) and Entry<->Vec<Relation> must be identities.",
   note="Component strings outside the menus are not explored."),
 "C15": dict(
   category="exploration", design_ref="DESIGN.md §3 C15",
   technique="exhaustive enumeration of the full product (accessor pair x value menu x 6 prior paragraph states), of all ordered setter pairs per view and of a raw-text reading table, executed on the real typed views; field names in the table are written from Debian documentation, not from the code",
   text="146 getter/setter pairs (control Source/Binary, apt Source/Package/Release, Changes, Buildinfo, copyright Header/FilesParagraph, DEP-3 PatchHeader) x 2-3 valid values (plus clearing where the setter takes an Option) x 6 prior states (field absent; present with another value; present with comments around it and a field after; fields before and after; in a two-paragraph document after / before a paragraph of another kind): the getter must return the value (live and after printing + re-reading), exactly one field of the documented Debian name must hold it (none after clearing), every other field, paragraph and comment must be unchanged, and other accessors reading another part of the same field keep their reading. Every ordered pair of setters of a view is applied in sequence. 75 reading rows check getters on raw text (comma/space/line lists, yes/no flags, checksum triples, description lines, source/binary classification).",
   note="Trusted base: the hand-written field names and expected readings (from Policy, deb822/deb-src-control man pages, DEP-3, DEP-5, repository format). Empty lists, case-insensitive field-name lookup and readings the statement does not document were removed from the table after triage (DESIGN §3 C15)."),
 "C16": dict(
   category="exploration", design_ref="DESIGN.md §3 C16",
   technique="exhaustive enumeration over programs (16 single-field structs = every field shape the derive macro distinguishes, one 16-field struct, all 12 shipped deriving structs) x presence/value vectors within k deviations of two baselines x both paragraph back-ends x update priors",
   text="Programs: one struct per combination of mandatory/optional x default/renamed key x default/custom serialiser x default/custom deserialiser (16), a struct with all 16 shapes, and every deriving struct in the workspace (lossy control Source/Binary, apt Release/Source/Package, Buildinfo, Removal, copyright Header/Files/Licence paragraphs, DEP-3 PatchHeader, apt-sources Repository). For every presence/value vector within 2 (thorough 3) deviations of the all-mandatory and all-present baselines: to_paragraph lists exactly the present fields in declaration order under the configured names with values through the codecs, from_paragraph(to_paragraph(x)) == x, both back-ends agree; for <= 1 deviation also update_paragraph onto 6 prior contents (empty, own fields with other values, own fields interleaved with foreign fields/comments/odd spacing, every optional present, an unterminated paragraph holding only the later-declared half, every own field repeated) on both back-ends (reads back equal, absent optionals removed, own fields once, foreign lines byte-identical in order), each mandatory field deleted and each field corrupted must give an error naming the field.",
   note="Field tables (names, valid/invalid raw values, comparison mode) are hand-written from the struct definitions; hash-ordered collections carry one element."),
 "C17": dict(
   category="exploration", design_ref="DESIGN.md §3 C17",
   technique="exhaustive enumeration of (glob pattern x path) pairs over token/character alphabets and of all small copyright files x paths, executed through both real readers against a backtracking reference matcher and a last-match-wins reference",
   text="Globs: every pattern of 1-3 tokens (thorough 4) over {a b . / + ( [ * ? \\* \\? \\\\} x every path of 0-2 characters (thorough 3) over {a b . / + ( [ * ? \\} goes through FilesParagraph::matches of the lossless and the lossy reader and must agree with a 10-line backtracking matcher written from the statement ('*' crosses '/', '?' one character, backslash escapes, everything else literal, whole-path match). Lookup: every copyright file of 0-2 (thorough 3) Files paragraphs (80 configurations each: 5 first patterns x second pattern absent / same line / own line x 4 licence kinds) with 4 stand-alone-licence sets x 6 paths must resolve, in both readers, to the last matching paragraph and to its own licence text or else the first stand-alone licence of that name; texts not starting with Format are refused.",
   note="Backslash followed by another character, empty patterns and text-only licences are outside the domain."),
 "C18": dict(
   category="exploration", design_ref="DESIGN.md §3 C18",
   technique="exhaustive enumeration per typed value family: all enumeration values, full products of record component menus, canonical texts, and for keyword types every string to length 4-5 plus the complete edit-distance-1 neighbourhood of each keyword",
   text="24 value families (Priority, MultiArch, Urgency, the four checksum records, PackageListEntry, changes File, VersionConstraint, BuildProfile, ParsedVcs, Vcs x 5 kinds with every branch/subpath/module combination, DEP-3 Forwarded / OriginCategory / Origin / AppliedUpstream and origin-with-category through both patch-header types, License, RepositoryType, YesNoForce, Signature): every value of the family is printed and parsed back (must be equal), every canonical text is parsed and printed (must be identical), and for the 9 keyword types every string over up to 8 keyword letters + '-', ' ', 'A' to length 4 (thorough 5) and every deletion / substitution / insertion / case flip of every keyword must be rejected unless it is a keyword (case variants accepted only for Urgency, as documented).",
   note="Free-form payloads that collide with the text syntax (e.g. Forwarded::Yes(\"no\"), tokens with whitespace, two extra keys printed in hash order) are outside the value domain."),
 "C19": dict(
   category="fault_enumeration", design_ref="DESIGN.md §3 C19",
   technique="exhaustive fault enumeration: for every message of a bounded family, every line truncation, every byte truncation (small sub-family), every trailing addition; reference computed from construction offsets",
   text="Message family: every sequence of <= 2 armour headers x every sequence of <= 3 (thorough 4) payload lines from 13 templates (empty line, deb822 field, indented line, header look-alike, Unicode, and each of the three markers behind a letter / blank / tab or followed by a blank) x every sequence of <= 2 signature lines. For every message: the intact message must unwrap to exactly (payload, concatenated signature lines); the payload alone must pass through unchanged; truncation after every line and (for <= 1 header, <= 2 payload lines, <= 1 signature line) at every byte must give MissingPayload / MissingPgpSignature / TruncatedPgpSignature according to where the cut falls relative to the blank line / BEGIN / END markers (a cut inside the first marker line is passthrough); each of 4 trailing additions must give JunkAfterPgpSignature.",
   note="Payload lines are LF-terminated and never start with '-', as the statement requires."),
 "C20": dict(
   category="exploration", design_ref="DESIGN.md §3 C20",
   technique="exhaustive enumeration of typed documents (paragraph sequences x k-deviation field vectors x 4 layouts) from hand-written field tables through parse, field-wise comparison with the lossless reader, print, re-parse and re-print; plus every structurally invalid variant",
   text="Nine document kinds (lossy control file, copyright file, apt Sources/Packages/Release stanza, removal record, lossy buildinfo, DEP-3 header, APT sources list): every paragraph sequence of the kind's shape list (source before/between/after up to 2 binaries; header + Files/licence paragraphs in 8 orders; 1-2 repositories) x every presence/value vector within 1 (thorough 2) deviations of the all-mandatory and all-present baselines x 4 layouts (comments, blank-line variants) is parsed; roles must be assigned by the distinguishing fields, every field must carry what the lossless reader shows for the same text (through the type's codec), the print must re-parse to an equal value and print identically again; documented alias fields (DEP-3 From/Subject) instead of / next to the canonical field; each mandatory field deleted in turn and 12 structurally invalid texts (no/two source paragraphs, paragraph of neither kind, missing Format, ...) must be rejected.",
   note="Types without Display print through to_paragraph::<lossy::Paragraph>(); hash-ordered collections carry one element in generated documents (their print order was fixed to be sorted)."),
}

PENDING_REASON = "check not built yet in this round (work in progress; DESIGN.md §3 describes the intended bounded exhaustive exploration)"

def main():
    checks = []
    for pid in ALL:
        c = CHECKS.get(pid)
        if not c: continue
        checks.append({
            "property_id": pid,
            "quick_cmd": "./check %s --tier quick" % pid,
            "thorough_cmd": "./check %s --tier thorough" % pid,
            "evidence_file": "evidence/%s.json" % pid,
            "replay_cmd_template": "./check %s --replay {path}" % pid,
            "engine": "verif-harness",
            "level_claimed": {"category": c["category"], "text": c["text"], "design_ref": c["design_ref"]},
            "level_note": c["note"],
            "technique": c["technique"],
        })
    na = [{"property_id": p, "reason": PENDING_REASON} for p in ALL if p not in CHECKS]
    m = {
        "version": 1,
        "setup_cmd": "cd harness && CARGO_NET_OFFLINE=true cargo build --release --offline",
        "hooks": {
            "guard": "cargo feature verif-hooks (deb822-lossless, debian-control)",
            "enable": "the harness crate depends on /repo's crates by path with features = [\"verif-hooks\"]; ./check rebuilds it from /repo's working tree before every run",
            "baseline_off_cmd": "cd /repo && cargo test --workspace --no-fail-fast --offline",
            "source_commits": hook_commits(),
            "add_only": True,
        },
        "engines": [{
            "name": "verif-harness", "path": "harness/",
            "serves_properties": sorted(CHECKS.keys()),
            "kind_free_text": "Rust binary linking the real crates (hooks on): stateless exhaustive exploration (E1 strings/tries, E2 bounded products and k-deviation sets, E3 breadth-first edit histories on live objects, E4 fault enumeration) under catch_unwind, loop-tick budget, allocation cap and stall watchdog; shrinks violations to cores and classifies them against known_findings.jsonl",
        }],
        "checks": checks,
        "not_applicable": na,
        "notes": "All checks: exit 0 = held on everything explored (KNOWN-FINDING lines for listed genuine defects), exit 1 + VIOLATION line otherwise, exit 2 = machinery failure. Evidence is rewritten by every run. See DESIGN.md.",
    }
    with open(os.path.join(ROOT, "MANIFEST.json"), "w") as f:
        json.dump(m, f, indent=1)
        f.write("\n")
if __name__ == "__main__":
    main()
