//! Shared machinery: guard rails, parallel exhaustive runner, violation shrinking,
//! known-findings classification, evidence writing.  See DESIGN.md section 2.

use serde::{de::DeserializeOwned, Deserialize, Serialize};
use serde_json::{json, Value};
use std::cell::{Cell, RefCell};
use std::collections::BTreeMap;
use std::panic::{catch_unwind, AssertUnwindSafe};
use std::sync::atomic::{AtomicBool, AtomicU64, AtomicUsize, Ordering::*};
use std::sync::Mutex;
use std::time::{Duration, Instant};

// ---------------------------------------------------------------------------------------------
// Allocation cap (per worker thread, per case): turns memory exhaustion into a verdict.

pub struct CapAlloc;
const ALLOC_CAP: isize = 2 << 30; // 2 GiB live per worker since the case started

thread_local! {
    static LIVE: Cell<isize> = const { Cell::new(0) };
    static SLOT: Cell<usize> = const { Cell::new(usize::MAX) };
}

unsafe impl std::alloc::GlobalAlloc for CapAlloc {
    unsafe fn alloc(&self, l: std::alloc::Layout) -> *mut u8 {
        let over = LIVE
            .try_with(|c| {
                let n = c.get() + l.size() as isize;
                c.set(n);
                n > ALLOC_CAP
            })
            .unwrap_or(false);
        if over {
            oom_trip();
        }
        std::alloc::System.alloc(l)
    }
    unsafe fn dealloc(&self, p: *mut u8, l: std::alloc::Layout) {
        let _ = LIVE.try_with(|c| c.set(c.get() - l.size() as isize));
        std::alloc::System.dealloc(p, l)
    }
    unsafe fn realloc(&self, p: *mut u8, l: std::alloc::Layout, new: usize) -> *mut u8 {
        let over = LIVE
            .try_with(|c| {
                let n = c.get() + new as isize - l.size() as isize;
                c.set(n);
                n > ALLOC_CAP
            })
            .unwrap_or(false);
        if over {
            oom_trip();
        }
        std::alloc::System.realloc(p, l, new)
    }
}

/// Called on the worker thread from inside the allocator: flag the slot and park; the
/// watchdog re-derives the case, writes the replay and ends the process.
fn oom_trip() {
    let slot = SLOT.try_with(|s| s.get()).unwrap_or(usize::MAX);
    let _ = LIVE.try_with(|c| c.set(isize::MIN / 2));
    if slot < MAX_SLOTS {
        SLOTS[slot].oom.store(true, SeqCst);
        loop {
            std::thread::sleep(Duration::from_secs(3600));
        }
    }
    // not a worker thread: machinery failure
    let msg = b"verif: allocation cap exceeded outside a worker case (machinery failure)\n";
    unsafe {
        extern "C" {
            fn write(fd: i32, buf: *const u8, n: usize) -> isize;
        }
        write(2, msg.as_ptr(), msg.len());
    }
    std::process::exit(2);
}

pub fn reset_live() {
    let _ = LIVE.try_with(|c| c.set(0));
}

// ---------------------------------------------------------------------------------------------
// Worker slots (watchdog view of what every worker is doing right now)

pub const MAX_SLOTS: usize = 64;
pub struct Slot {
    pub seq: AtomicU64,     // bumped at the start of every case
    pub shard: AtomicUsize, // shard being explored
    pub case_ptr: std::sync::atomic::AtomicPtr<()>, // the case being checked right now (valid while the worker is inside check)
    pub active: AtomicBool,
    pub oom: AtomicBool,
}
#[allow(clippy::declare_interior_mutable_const)]
const SLOT_INIT: Slot = Slot {
    seq: AtomicU64::new(0),
    shard: AtomicUsize::new(0),
    case_ptr: std::sync::atomic::AtomicPtr::new(std::ptr::null_mut()),
    active: AtomicBool::new(false),
    oom: AtomicBool::new(false),
};
pub static SLOTS: [Slot; MAX_SLOTS] = [SLOT_INIT; MAX_SLOTS];

// ---------------------------------------------------------------------------------------------
// Panic capture

#[derive(Debug, Clone)]
pub struct PanicInfo {
    pub msg: String,
    pub loc: String,
}

thread_local! {
    static LAST_PANIC: RefCell<Option<PanicInfo>> = const { RefCell::new(None) };
    static QUIET: Cell<bool> = const { Cell::new(false) };
}

pub fn install_panic_hook() {
    let default = std::panic::take_hook();
    std::panic::set_hook(Box::new(move |info| {
        let msg = if let Some(s) = info.payload().downcast_ref::<&str>() {
            s.to_string()
        } else if let Some(s) = info.payload().downcast_ref::<String>() {
            s.clone()
        } else {
            "<non-string panic>".to_string()
        };
        let loc = info
            .location()
            .map(|l| format!("{}:{}", l.file(), l.line()))
            .unwrap_or_default();
        if QUIET.with(|q| q.get()) {
            LAST_PANIC.with(|p| *p.borrow_mut() = Some(PanicInfo { msg, loc }));
        } else {
            default(info);
        }
    }));
}

/// Tick budget for an n-byte input: generous quadratic envelope (DESIGN 2.6).
pub fn budget_for(n: usize) -> u64 {
    let n = n as u64;
    256 + 32 * n + 2 * n * n
}

/// Run a subject call under catch_unwind with the loop budget armed.
pub fn guard<R>(budget: u64, f: impl FnOnce() -> R) -> Result<R, PanicInfo> {
    QUIET.with(|q| q.set(true));
    deb822_lossless::verif::arm(budget);
    let r = catch_unwind(AssertUnwindSafe(f));
    deb822_lossless::verif::disarm();
    QUIET.with(|q| q.set(false));
    match r {
        Ok(v) => Ok(v),
        Err(_) => Err(LAST_PANIC
            .with(|p| p.borrow_mut().take())
            .unwrap_or(PanicInfo {
                msg: "<unknown>".into(),
                loc: String::new(),
            })),
    }
}

pub fn is_budget(p: &PanicInfo) -> bool {
    p.msg.starts_with(deb822_lossless::verif::BUDGET_PANIC)
}

/// Strip the absolute repo prefix and line numbers' volatility is accepted (cores identify findings).
pub fn panic_detail(p: &PanicInfo) -> String {
    let mut m = p.msg.clone();
    if m.len() > 160 {
        let mut e = 160;
        while !m.is_char_boundary(e) {
            e -= 1;
        }
        m.truncate(e);
    }
    format!("{} @ {}", m, p.loc.trim_start_matches("/repo/"))
}

// ---------------------------------------------------------------------------------------------
// Property interface

#[derive(Debug, Clone, PartialEq, Eq)]
pub struct Viol {
    pub clause: String,
    pub detail: String,
}
pub fn viol(clause: &str, detail: impl Into<String>) -> Viol {
    Viol {
        clause: clause.to_string(),
        detail: detail.into(),
    }
}

#[derive(Clone, Copy, PartialEq, Eq, Debug)]
pub enum Tier {
    Quick,
    Thorough,
}
impl Tier {
    pub fn name(self) -> &'static str {
        match self {
            Tier::Quick => "quick",
            Tier::Thorough => "thorough",
        }
    }
    pub fn pick<T>(self, q: T, t: T) -> T {
        match self {
            Tier::Quick => q,
            Tier::Thorough => t,
        }
    }
}

/// Per-thread statistics, merged at the end of a run.
#[derive(Default)]
pub struct Stats {
    pub evaluations: u64,
    pub nontrivial: u64,
    pub transitions: u64,
    pub outcomes: BTreeMap<String, u64>,
    pub counters: BTreeMap<String, u64>,
    pub samples: Vec<Value>,
    pub outcome_samples: BTreeMap<String, Value>,
    pub coverage: Vec<u64>,
    /// scratch: canonical state key produced by the last check (history explorers)
    pub key: Option<String>,
    pub max_ticks: u64,
}
impl Stats {
    pub fn outcome(&mut self, name: &str) {
        if let Some(c) = self.outcomes.get_mut(name) {
            *c += 1;
        } else {
            self.outcomes.insert(name.to_string(), 1);
        }
    }
    pub fn count(&mut self, name: &str, n: u64) {
        if let Some(c) = self.counters.get_mut(name) {
            *c += n;
        } else {
            self.counters.insert(name.to_string(), n);
        }
    }
    pub fn outcome_with<C: Serialize>(&mut self, name: &str, case: &C) {
        self.outcome(name);
        if !self.outcome_samples.contains_key(name) {
            self.outcome_samples
                .insert(name.to_string(), serde_json::to_value(case).unwrap());
        }
    }
    fn merge(&mut self, o: Stats) {
        self.evaluations += o.evaluations;
        self.nontrivial += o.nontrivial;
        self.transitions += o.transitions;
        self.max_ticks = self.max_ticks.max(o.max_ticks);
        for (k, v) in o.outcomes {
            *self.outcomes.entry(k).or_insert(0) += v;
        }
        for (k, v) in o.counters {
            *self.counters.entry(k).or_insert(0) += v;
        }
        for (k, v) in o.outcome_samples {
            self.outcome_samples.entry(k).or_insert(v);
        }
        self.samples.extend(o.samples);
        if self.coverage.len() < o.coverage.len() {
            self.coverage.resize(o.coverage.len(), 0);
        }
        for (i, c) in o.coverage.iter().enumerate() {
            self.coverage[i] |= c;
        }
    }
}

/// What the engine tells an explorer about the case it just submitted.
pub struct Verdict {
    pub violated: bool,
    pub key: Option<String>,
}

pub trait Prop: Sync {
    type Case: Clone + Serialize + DeserializeOwned + PartialEq + Send;
    fn id(&self) -> &'static str;
    fn level(&self) -> &'static str;
    /// Human description of how cases are enumerated and what counts as non-trivial.
    fn rule(&self, tier: Tier) -> String;
    fn bounds(&self, tier: Tier) -> Value;
    fn assumptions(&self) -> Vec<String>;
    fn n_shards(&self, tier: Tier) -> usize;
    /// Enumerate every case of a shard, submitting each to `f`.  Return false from the walk early if `f` says stop.
    fn explore(&self, tier: Tier, shard: usize, f: &mut dyn FnMut(&Self::Case) -> Verdict);
    /// Decide one case on the real implementation.
    fn check(&self, c: &Self::Case, st: &mut Stats) -> Vec<Viol>;
    /// Strictly simpler variants of a case (for shrinking a violation to its core).
    fn shrinks(&self, c: &Self::Case) -> Vec<Self::Case>;
    /// A plain Rust snippet that reproduces the case without the explorer.
    fn snippet(&self, c: &Self::Case, v: &Viol) -> String;
    /// Extra evidence keys computed after the run (e.g. saturation, class validation).
    fn extra_evidence(&self, _tier: Tier, _merged: &Stats) -> Value {
        json!({})
    }
    /// Is this case's exploration a model-checking style walk (states/transitions reported)?
    fn states_from(&self, merged: &Stats) -> Option<(u64, u64)> {
        let _ = merged;
        None
    }
    /// Distinct non-trivial case count when the explorer (not the per-case check) decides distinctness.
    fn distinct_override(&self) -> Option<u64> {
        None
    }
    /// A run that observed none of these outcome classes is vacuous (machinery failure).
    /// number of times an internal cap (e.g. a per-start state budget) cut the exploration short; non-zero makes the run
    /// report exhaustive=false
    fn cap_hits(&self) -> u64 {
        0
    }
    fn required_outcomes(&self) -> Vec<&'static str> {
        vec![]
    }
}

// ---------------------------------------------------------------------------------------------
// Known findings

#[derive(Debug, Clone, Deserialize, Serialize)]
pub struct Finding {
    pub status: String, // "known" | "fixed"
    pub property: String,
    pub clause: String,
    pub core: Value,
    pub what: String,
    #[serde(default)]
    pub commit: Option<String>,
}

pub fn load_findings(property: &str) -> Vec<Finding> {
    let path = verif_root().join("known_findings.jsonl");
    let Ok(text) = std::fs::read_to_string(&path) else {
        return vec![];
    };
    let mut out = vec![];
    for (i, line) in text.lines().enumerate() {
        let line = line.trim();
        if line.is_empty() || line.starts_with('#') {
            continue;
        }
        match serde_json::from_str::<Finding>(line) {
            Ok(f) => {
                if f.property == property {
                    out.push(f)
                }
            }
            Err(e) => {
                eprintln!("verif: known_findings.jsonl line {} unreadable: {}", i + 1, e);
                std::process::exit(2);
            }
        }
    }
    out
}

pub fn verif_root() -> std::path::PathBuf {
    std::env::var("VERIF_ROOT")
        .map(std::path::PathBuf::from)
        .unwrap_or_else(|_| std::path::PathBuf::from("/verif"))
}

// ---------------------------------------------------------------------------------------------
// Shrinking

/// Greedy deterministic shrink: keep a candidate if it still violates the same clause.
pub fn shrink<P: Prop>(p: &P, case: &P::Case, clause: &str) -> (P::Case, Viol) {
    let mut cur = case.clone();
    let mut scratch = Stats::default();
    let mut cur_v = p
        .check(&cur, &mut scratch)
        .into_iter()
        .find(|v| v.clause == clause)
        .unwrap_or_else(|| viol(clause, "<not reproduced while shrinking>"));
    // (a case of tens of kilobytes - a size-threshold document - gets fewer shrink attempts: each costs a full check)
    let big = serde_json::to_string(case).map(|j| j.len()).unwrap_or(0) > 10_000;
    let mut budget = if big { 300usize } else { 4000usize };
    'outer: loop {
        for cand in p.shrinks(&cur) {
            if budget == 0 {
                break 'outer;
            }
            budget -= 1;
            let vs = p.check(&cand, &mut scratch);
            if let Some(v) = vs.into_iter().find(|v| v.clause == clause) {
                cur = cand;
                cur_v = v;
                continue 'outer;
            }
        }
        break;
    }
    (cur, cur_v)
}

// ---------------------------------------------------------------------------------------------
// Runner

pub struct RunCfg {
    pub tier: Tier,
    pub seed: u64,
    pub threads: usize,
}

struct Found<C> {
    clause: String,
    core: C,
    core_json: Value,
    viol: Viol,
    original: C,
    count: u64,
}

const MAX_UNKNOWN_CORES: usize = 8;
const MAX_SLOW_PATH: u64 = 200_000;

pub fn run_prop<P: Prop>(p: &P, cfg: &RunCfg) -> i32 {
    let t0 = Instant::now();
    let id = p.id();
    let findings = load_findings(id);
    let mut exit = 0;

    // 1. replay listed findings
    let mut scratch = Stats::default();
    let mut known_cores: Vec<(String, Value)> = vec![];
    for f in &findings {
        let case: P::Case = match serde_json::from_value(f.core.clone()) {
            Ok(c) => c,
            Err(e) => {
                eprintln!("verif: finding core for {} not decodable: {}", id, e);
                return 2;
            }
        };
        let vs = p.check(&case, &mut scratch);
        let hit = vs.iter().any(|v| v.clause == f.clause);
        match (f.status.as_str(), hit) {
            ("known", true) => {
                println!("KNOWN-FINDING: property={} {}", id, f.what);
                known_cores.push((f.clause.clone(), f.core.clone()));
            }
            ("known", false) => {
                println!("STALE-FINDING: property={} (listed core no longer fails) {}", id, f.what);
                known_cores.push((f.clause.clone(), f.core.clone()));
            }
            ("fixed", false) => {}
            ("fixed", true) => { /* reported by exploration below or right here */
                let v = vs.into_iter().find(|v| v.clause == f.clause).unwrap();
                let path = write_replay(p, &case, &case, &v);
                println!("VIOLATION property={} replay={}", id, path);
                println!("  (regression of a finding recorded as fixed: {})", f.what);
                exit = 1;
            }
            _ => {
                eprintln!("verif: bad status in known_findings.jsonl: {}", f.status);
                return 2;
            }
        }
    }

    // 2. exhaustive exploration
    let n_shards = p.n_shards(cfg.tier);
    let next = AtomicUsize::new(0);
    let stop = AtomicBool::new(false);
    let done = AtomicBool::new(false);
    let slow_paths = AtomicU64::new(0);
    let found: Mutex<Vec<Found<P::Case>>> = Mutex::new(vec![]);
    let merged = Mutex::new(Stats::default());
    let shard_order: Vec<usize> = {
        // the seed only rotates the order in which shards are handed out
        let rot = if n_shards > 0 { (cfg.seed as usize) % n_shards } else { 0 };
        (0..n_shards).map(|i| (i + rot) % n_shards).collect()
    };
    let threads = cfg.threads.min(MAX_SLOTS).max(1);
    let stall_limit = Duration::from_secs(cfg.tier.pick(60, 120));

    std::thread::scope(|s| {
        // watchdog
        let wd = s.spawn(|| {
            let mut last: Vec<(u64, u32)> = vec![(0, 0); threads];
            let tick = Duration::from_millis(100);
            let limit_ticks = (stall_limit.as_millis() / 100) as u32;
            while !done.load(SeqCst) {
                std::thread::sleep(tick);
                for w in 0..threads {
                    let sl = &SLOTS[w];
                    if !sl.active.load(SeqCst) {
                        last[w].1 = 0;
                        continue;
                    }
                    let seq = sl.seq.load(SeqCst);
                    let oom = sl.oom.load(SeqCst);
                    if seq == last[w].0 {
                        last[w].1 += 1;
                    } else {
                        last[w] = (seq, 0);
                    }
                    if oom || last[w].1 > limit_ticks {
                        // resource-class violation: re-derive the case and report
                        let shard = sl.shard.load(SeqCst);
                        let clause = if oom { "memory-exhausted" } else { "hang" };
                        // The worker is parked (oom) or spinning inside check(case): the case it
                        // was handed is alive and unchanged, so it can be read from here.
                        let ptr = sl.case_ptr.load(SeqCst) as *const P::Case;
                        let the_case: Option<P::Case> = if ptr.is_null() { None } else { Some(unsafe { (*ptr).clone() }) };
                        let v = viol(
                            clause,
                            format!("worker stuck in shard {} ({}): no result within the stall limit / allocation cap", shard, clause),
                        );
                        if let Some(c) = the_case {
                            let path = write_replay(p, &c, &c, &v);
                            println!("VIOLATION property={} replay={}", id, path);
                        } else {
                            println!("VIOLATION property={} replay=<shard {}>", id, shard);
                        }
                        // cases started so far, from the workers' counters (their statistics are not merged yet)
                        let mut partial = Stats::default();
                        partial.evaluations = (0..threads).map(|w| SLOTS[w].seq.load(SeqCst)).sum::<u64>().max(1);
                        partial.nontrivial = partial.evaluations.max(2);
                        partial.samples.push(serde_json::to_value(format!("aborted on a {} verdict; see the replay file", clause)).unwrap());
                        write_evidence(p, cfg, &partial, t0, 1, false, json!({"aborted": clause, "note": "run ended by the watchdog: counts are cases started, not completed statistics"}));
                        std::process::exit(1);
                    }
                }
            }
        });

        let mut handles = vec![];
        for w in 0..threads {
            let (next, stop, found, merged, slow_paths, shard_order, known_cores) =
                (&next, &stop, &found, &merged, &slow_paths, &shard_order, &known_cores);
            let h = std::thread::Builder::new()
                .stack_size(256 << 20)
                .spawn_scoped(s, move || {
                    let _ = SLOT.try_with(|s| s.set(w));
                    let sl = &SLOTS[w];
                    let mut st = Stats::default();
                    deb822_lossless::verif::reset_coverage();
                    loop {
                        let i = next.fetch_add(1, SeqCst);
                        if i >= shard_order.len() || stop.load(SeqCst) {
                            break;
                        }
                        let shard = shard_order[i];
                        sl.shard.store(shard, SeqCst);
                        sl.active.store(true, SeqCst);
                        p.explore(cfg.tier, shard, &mut |case| {
                            sl.case_ptr.store(case as *const P::Case as *mut (), Release);
                            sl.seq.fetch_add(1, Release);
                            trace_case(p, w, case);
                            reset_live();
                            st.evaluations += 1;
                            st.key = None;
                            let vs = p.check(case, &mut st);
                            if st.evaluations.is_power_of_two() && st.samples.len() < 12 {
                                let v = serde_json::to_value(case).unwrap();
                                if v.to_string().len() <= 2000 {
                                    st.samples.push(v);
                                }
                            }
                            let key = st.key.take();
                            if vs.is_empty() {
                                return Verdict { violated: false, key };
                            }
                            // slow path
                            sl.active.store(false, SeqCst);
                            let mut clauses: Vec<&str> = vs.iter().map(|v| v.clause.as_str()).collect();
                            clauses.sort();
                            clauses.dedup();
                            for clause in clauses {
                                let n = slow_paths.fetch_add(1, SeqCst);
                                if n > MAX_SLOW_PATH {
                                    stop.store(true, SeqCst);
                                    break;
                                }
                                let (core, v) = shrink(p, case, clause);
                                let core_json = serde_json::to_value(&core).unwrap();
                                let mut fl = found.lock().unwrap();
                                if let Some(f) = fl.iter_mut().find(|f| f.clause == clause && f.core_json == core_json) {
                                    f.count += 1;
                                } else {
                                    let is_known = known_cores.iter().any(|(c, j)| c == clause && *j == core_json);
                                    fl.push(Found {
                                        clause: clause.to_string(),
                                        core,
                                        core_json,
                                        viol: v,
                                        original: case.clone(),
                                        count: 1,
                                    });
                                    let unknown = fl
                                        .iter()
                                        .filter(|f| !known_cores.iter().any(|(c, j)| *c == f.clause && *j == f.core_json))
                                        .count();
                                    if !is_known && unknown >= MAX_UNKNOWN_CORES {
                                        stop.store(true, SeqCst);
                                    }
                                }
                            }
                            sl.active.store(true, SeqCst);
                            Verdict { violated: true, key }
                        });
                        sl.active.store(false, SeqCst);
                    }
                    let cov = deb822_lossless::verif::coverage();
                    st.coverage = cov.to_vec();
                    merged.lock().unwrap().merge(st);
                })
                .unwrap();
            handles.push(h);
        }
        for h in handles {
            if h.join().is_err() {
                eprintln!("verif: worker thread panicked outside a guarded call (machinery failure)");
                std::process::exit(2);
            }
        }
        done.store(true, SeqCst);
        let _ = wd.join();
    });

    let merged = merged.into_inner().unwrap();
    let found = found.into_inner().unwrap();
    let stopped = stop.load(SeqCst);

    // 3. classify
    let mut violations = 0;
    let mut known_counts: Vec<Value> = vec![];
    for f in &found {
        let known = known_cores.iter().any(|(c, j)| *c == f.clause && *j == f.core_json);
        if known {
            known_counts.push(json!({"clause": f.clause, "core": f.core_json, "cases": f.count}));
        } else {
            violations += 1;
            let path = write_replay(p, &f.core, &f.original, &f.viol);
            println!("VIOLATION property={} replay={}", id, path);
            // (the replay file holds the complete case; the console line abbreviates very long ones)
            let abbreviate = |t: &str| -> String {
                if t.len() <= 4000 {
                    t.to_string()
                } else {
                    let head: String = t.chars().take(400).collect();
                    let tail: String = t.chars().rev().take(200).collect::<Vec<_>>().into_iter().rev().collect();
                    format!("{} ...<{} bytes in all>... {}", head, t.len(), tail)
                }
            };
            println!("  clause={} cases={} core={} detail={}", f.clause, f.count, abbreviate(&f.core_json.to_string()), abbreviate(&f.viol.detail));
            exit = 1;
        }
    }

    // 4. vacuity guard
    for need in p.required_outcomes() {
        if !stopped && merged.outcomes.get(need).copied().unwrap_or(0) == 0 {
            eprintln!("verif: vacuous run for {}: outcome class '{}' never observed (machinery failure)", id, need);
            return 2;
        }
    }

    write_evidence(
        p,
        cfg,
        &merged,
        t0,
        violations,
        !stopped && p.cap_hits() == 0,
        json!({"known_findings_hit": known_counts, "cap_hits": p.cap_hits()}),
    );
    println!(
        "{} tier={} evaluations={} nontrivial={} violations={} known_cores={} exhaustive={} wall={:.1}s",
        id,
        cfg.tier.name(),
        merged.evaluations,
        p.distinct_override().unwrap_or(merged.nontrivial),
        violations,
        known_counts.len(),
        !stopped && p.cap_hits() == 0,
        t0.elapsed().as_secs_f64()
    );
    exit
}

/// Crash localisation (stack overflow / abort inside the subject cannot be caught in-process): when VERIF_TRACE_DIR is
/// set, every worker writes the case it is about to run to <dir>/w<k>.json in replay format.  ./check re-runs a check
/// that died by a signal in this mode and then replays the files one by one to find the case that kills the process.
fn trace_dir() -> Option<&'static std::path::PathBuf> {
    static DIR: std::sync::OnceLock<Option<std::path::PathBuf>> = std::sync::OnceLock::new();
    DIR.get_or_init(|| std::env::var("VERIF_TRACE_DIR").ok().filter(|s| !s.is_empty()).map(std::path::PathBuf::from)).as_ref()
}
fn trace_case<P: Prop>(p: &P, worker: usize, case: &P::Case) {
    if let Some(dir) = trace_dir() {
        let doc = json!({"property": p.id(), "clause": "crash", "detail": "the process died (stack overflow or abort) while this case was running", "core": serde_json::to_value(case).unwrap()});
        let _ = std::fs::write(dir.join(format!("w{}.json", worker)), doc.to_string());
    }
}

/// Evidence for a run that ended with the process dying in the subject: written by a fresh process on behalf of ./check.
pub fn crash_evidence<P: Prop>(p: &P, cfg: &RunCfg, replay: &str) -> i32 {
    let mut partial = Stats::default();
    partial.evaluations = 1;
    partial.nontrivial = 2;
    partial.samples.push(serde_json::to_value(format!("the check process died by a signal; the case that kills it was located by replay: {}", replay)).unwrap());
    write_evidence(p, cfg, &partial, Instant::now(), 1, false, json!({"aborted": "process-died", "note": "stack exhaustion or abort inside the subject: located with VERIF_TRACE_DIR and single-case replays"}));
    0
}

pub fn replay_file<P: Prop>(p: &P, path: &str) -> i32 {
    let text = match std::fs::read_to_string(path) {
        Ok(t) => t,
        Err(e) => {
            eprintln!("verif: cannot read {}: {}", path, e);
            return 2;
        }
    };
    let v: Value = serde_json::from_str(&text).unwrap();
    let case: P::Case = serde_json::from_value(v["core"].clone()).unwrap();
    let mut st = Stats::default();
    let vs = p.check(&case, &mut st);
    let vs2 = p.check(&case, &mut st);
    if vs != vs2 {
        eprintln!("verif: replay is not deterministic: {:?} vs {:?}", vs, vs2);
        return 2;
    }
    if vs.is_empty() {
        println!("replay {}: no violation", path);
        0
    } else {
        for v in &vs {
            println!("replay {}: clause={} detail={}", path, v.clause, v.detail);
        }
        println!("VIOLATION property={} replay={}", p.id(), path);
        1
    }
}

fn fnv(s: &str) -> u64 {
    let mut h = 0xcbf29ce484222325u64;
    for b in s.bytes() {
        h ^= b as u64;
        h = h.wrapping_mul(0x100000001b3);
    }
    h
}

fn write_replay<P: Prop>(p: &P, core: &P::Case, original: &P::Case, v: &Viol) -> String {
    let dir = verif_root().join("replays");
    let _ = std::fs::create_dir_all(&dir);
    let core_json = serde_json::to_value(core).unwrap();
    let h = fnv(&format!("{}{}", v.clause, core_json));
    let path = dir.join(format!("{}-{:012x}.json", p.id(), h & 0xffff_ffff_ffff));
    let doc = json!({
        "property": p.id(),
        "clause": v.clause,
        "detail": v.detail,
        "core": core_json,
        "original": serde_json::to_value(original).unwrap(),
        "test_snippet": p.snippet(core, v),
    });
    let _ = std::fs::write(&path, serde_json::to_string_pretty(&doc).unwrap());
    path.to_string_lossy().to_string()
}

fn write_evidence<P: Prop>(
    p: &P,
    cfg: &RunCfg,
    m: &Stats,
    t0: Instant,
    violations: usize,
    exhaustive: bool,
    extra: Value,
) {
    let dir = verif_root().join("evidence");
    let _ = std::fs::create_dir_all(&dir);
    let mut samples = m.samples.clone();
    samples.truncate(16);
    for (k, v) in &m.outcome_samples {
        samples.push(json!({"outcome": k, "case": v}));
    }
    if samples.is_empty() {
        samples.push(json!("<no case executed>"));
    }
    let (states, transitions) = p
        .states_from(m)
        .unwrap_or((m.evaluations.max(1), m.transitions.max(m.evaluations.saturating_sub(1)).max(1)));
    let mut coverage = json!({
        "evaluations": m.evaluations,
        "distinct_nontrivial": p.distinct_override().unwrap_or(m.nontrivial),
        "rule": p.rule(cfg.tier),
        "samples": samples,
        "states": states,
        "transitions": transitions,
        "traces_validated_against_impl": m.evaluations,
        "exhaustive": exhaustive,
        "bounds": p.bounds(cfg.tier),
        "outcomes": m.outcomes,
        "counters": m.counters,
        "max_loop_ticks_seen": m.max_ticks,
        "parser_loop_coverage_pairs": m.coverage.iter().map(|c| c.count_ones() as u64).sum::<u64>(),
        "explanation": "every case in the stated bounds is executed on the real implementation (hooks on) and compared with the oracle; no sampling",
    });
    let add = |dst: &mut Value, src: Value| {
        if let (Some(d), Some(s)) = (dst.as_object_mut(), src.as_object()) {
            for (k, v) in s {
                d.insert(k.clone(), v.clone());
            }
        }
    };
    add(&mut coverage, extra);
    add(&mut coverage, p.extra_evidence(cfg.tier, m));
    let doc = json!({
        "property_id": p.id(),
        "tier": cfg.tier.name(),
        "seed": cfg.seed,
        "level": p.level(),
        "coverage": coverage,
        "assumptions": p.assumptions(),
        "wall_s": t0.elapsed().as_secs_f64(),
        "violations": violations,
    });
    let path = dir.join(format!("{}.json", p.id()));
    let _ = std::fs::write(&path, serde_json::to_string_pretty(&doc).unwrap());
}
