//! C15 accessor table.  One `Row` per getter/setter pair of the lossless typed views, one `ReadRow`
//! per getter-on-raw-text reading.  Field names are written from Debian Policy / deb822 man pages /
//! DEP-3 / DEP-5 / the apt repository format / the accessor's doc comment -- NOT copied from the
//! accessor's body.
//!
//! Conventions: `run(doc_text, vi)` builds the view over `doc_text`, calls the setter with value
//! number `vi` of the row's menu (vi == n_values means "clear" when has_clear), and reports the
//! printed document, `format!("{:?}", getter())` and the Debug rendering of the value that was set
//! in the getter's return type.  `get(doc_text)` builds the view and returns `format!("{:?}", getter())`.
//!
//! How the views are built (each view macro names an `open` and a `print` function):
//!  * control::Source / Binary: `Control::from_str`, `source()` / `binaries().next()`, printed through Control.
//!  * rows whose field IS the field the view is found by (control Source.name, Binary.name, apt
//!    Source.package, apt Package.name, dep3 description): the view is built with the public
//!    `From<Paragraph>` / `new(Paragraph)` constructor over the paragraph that holds the row's base
//!    field, so that "field absent before" exists as a prior state and the engine can still locate
//!    the paragraph.  These rows have another `base` and are therefore sequenced only among themselves.
//!  * apt Source / Package / Release, Buildinfo: they expose neither their paragraph nor Display; the
//!    view is built with `From<Paragraph>` / `new(Paragraph)` over the first paragraph of a `Deb822`
//!    (which is what their FromStr does) and the Deb822 is printed (the edits are in place in the shared tree).
//!  * Changes: only `Changes::read` builds one and nothing gives the text back; the document is read
//!    through the wrapped paragraph (see `changes_text`).
//!  * copyright: `Copyright::from_str` only accepts a text starting with "Format:"; Files paragraphs
//!    are tested in a document that gets a fixed header paragraph in front (removed again from the
//!    printed text; if it changed, the whole text is reported so the engine sees an extra paragraph).
//!  * dep3: `PatchHeader::from_str`; printed through the root of `as_deb822()`.
//!
//! Types without Debug (Relations renders its syntax tree, Url its parts) are rendered through
//! to_string() on both sides.  HashMaps are rendered as sorted vectors.

use crate::props::c15::{Obs, ReadRow, Row};
use deb822_lossless::{Deb822, Paragraph};
use debian_control::fields::{Md5Checksum, MultiArch, Priority, Sha1Checksum, Sha256Checksum, Sha512Checksum};
use debian_control::lossless::apt;
use debian_control::lossless::buildinfo::Buildinfo;
use debian_control::lossless::changes::Changes;
use debian_control::lossless::control::{Binary, Control, Source};
use debian_control::lossless::relations::Relations;
use debian_copyright::lossless::{Copyright, FilesParagraph, Header};
use debian_copyright::License;
use dep3::lossless::PatchHeader;
use dep3::{AppliedUpstream, Forwarded, Origin, OriginCategory};
use rowan::ast::AstNode;
use std::str::FromStr;

// ---- building and printing the views ---------------------------------------------------------------

fn control(text: &str) -> Result<Control, String> {
    Control::from_str(text).map_err(|e| e.to_string())
}
fn deb822(text: &str) -> Result<Deb822, String> {
    Deb822::from_str(text).map_err(|e| e.to_string().replace('\n', "; "))
}
/// the paragraph that holds field `name`
fn para_with(d: &Deb822, name: &str) -> Result<Paragraph, String> {
    d.paragraphs().find(|p| p.keys().any(|k| k == name)).ok_or_else(|| format!("no paragraph with a {} field", name))
}
fn first_para(d: &Deb822) -> Result<Paragraph, String> {
    d.paragraphs().next().ok_or_else(|| "no paragraph".to_string())
}
/// the text of the whole document a paragraph lives in
fn root_text(p: &Paragraph) -> String {
    p.syntax().ancestors().last().map(|n| n.text().to_string()).unwrap_or_default()
}
fn rel(s: &str) -> Relations {
    s.parse().unwrap()
}

fn print_control<V>(c: &Control, _v: &V) -> String {
    c.to_string()
}
fn print_deb822<V>(d: &Deb822, _v: &V) -> String {
    d.to_string()
}

fn open_csrc(doc: &str) -> Result<(Control, Source), String> {
    let c = control(doc)?;
    let s = c.source().ok_or("no source paragraph")?;
    Ok((c, s))
}
fn open_cbin(doc: &str) -> Result<(Control, Binary), String> {
    let c = control(doc)?;
    let b = c.binaries().next().ok_or("no binary paragraph")?;
    Ok((c, b))
}
/// control::Source over the paragraph holding "Maintainer" (for the row that writes "Source")
fn open_csrc_para(doc: &str) -> Result<(Deb822, Source), String> {
    let d = deb822(doc)?;
    let p = para_with(&d, "Maintainer")?;
    Ok((d, Source::from(p)))
}
/// control::Binary over the paragraph holding "Architecture" (for the row that writes "Package")
fn open_cbin_para(doc: &str) -> Result<(Deb822, Binary), String> {
    let d = deb822(doc)?;
    let p = para_with(&d, "Architecture")?;
    Ok((d, Binary::from(p)))
}
fn open_asrc(doc: &str) -> Result<(Deb822, apt::Source), String> {
    let d = deb822(doc)?;
    let p = first_para(&d)?;
    Ok((d, apt::Source::from(p)))
}
fn open_apkg(doc: &str) -> Result<(Deb822, apt::Package), String> {
    let d = deb822(doc)?;
    let p = first_para(&d)?;
    Ok((d, apt::Package::new(p)))
}
fn open_arel(doc: &str) -> Result<(Deb822, apt::Release), String> {
    let d = deb822(doc)?;
    let p = first_para(&d)?;
    Ok((d, apt::Release::new(p)))
}
fn open_binfo(doc: &str) -> Result<(Deb822, Buildinfo), String> {
    let d = deb822(doc)?;
    let p = first_para(&d)?;
    Ok((d, Buildinfo::from(p)))
}
fn open_changes(doc: &str) -> Result<((), Changes), String> {
    Ok(((), Changes::read(doc.as_bytes()).map_err(|e| e.to_string().replace('\n', "; "))?))
}
/// `Changes` is `pub struct Changes(Paragraph)` with no accessor for the paragraph, no Display and no
/// From<Paragraph>; the only way to see the text after `set_format` is to look at the wrapped
/// paragraph.  A struct with a single field of the same size has that field at offset 0.
fn changes_text(_d: &(), c: &Changes) -> String {
    assert_eq!(std::mem::size_of::<Changes>(), std::mem::size_of::<Paragraph>());
    assert_eq!(std::mem::align_of::<Changes>(), std::mem::align_of::<Paragraph>());
    let p: &Paragraph = unsafe { &*(c as *const Changes as *const Paragraph) };
    root_text(p)
}

const CFORMAT: &str = "Format: https://www.debian.org/doc/packaging-manuals/copyright-format/1.0/\n";
const CPREFIX: &str = "Format: https://www.debian.org/doc/packaging-manuals/copyright-format/1.0/\n\n";

fn copyright(text: &str) -> Result<Copyright, String> {
    Copyright::from_str(text).map_err(|e| e.to_string().replace('\n', "; "))
}
fn open_chdr(doc: &str) -> Result<(Copyright, Header), String> {
    let c = copyright(doc)?;
    let h = c.header().ok_or("no header paragraph")?;
    Ok((c, h))
}
fn print_copyright<V>(c: &Copyright, _v: &V) -> String {
    c.to_string()
}
/// Files paragraph of `CPREFIX + doc`
fn open_cfiles(doc: &str) -> Result<(Copyright, FilesParagraph), String> {
    let c = copyright(&format!("{}{}", CPREFIX, doc))?;
    let f = c.iter_files().next().ok_or("no files paragraph")?;
    Ok((c, f))
}
fn print_copyright_unprefixed<V>(c: &Copyright, _v: &V) -> String {
    let t = c.to_string();
    match t.strip_prefix(CPREFIX) {
        Some(rest) => rest.to_string(),
        None => t,
    }
}
fn open_dep3(doc: &str) -> Result<((), PatchHeader), String> {
    Ok(((), PatchHeader::from_str(doc).map_err(|e| e.to_string().replace('\n', "; "))?))
}
fn print_dep3(_d: &(), h: &PatchHeader) -> String {
    root_text(h.as_deb822())
}

/// One more value for every free-text accessor: the first value of the menu with every other letter in upper case (for a
/// URL only the part behind the last '/'): an accessor that folds case on the way in or out returns another string.
fn mixed_case(values: &[&str]) -> String {
    let v = values[0];
    let start = if v.contains("://") { v.rfind('/').map(|i| i + 1).unwrap_or(0) } else { 0 };
    let mut up = true;
    let tail: String = v[start..]
        .chars()
        .map(|c| {
            if c.is_ascii_alphabetic() {
                up = !up;
                if up { c.to_ascii_uppercase() } else { c.to_ascii_lowercase() }
            } else {
                c
            }
        })
        .collect();
    format!("{}{}", &v[..start], tail)
}

/// ... and one with two-, three- and four-byte characters in it (behind the last '/' of a URL; appended otherwise)
fn non_ascii(values: &[&str]) -> String {
    let v = values[0];
    if v.contains("://") {
        format!("{}{}", v, if v.ends_with('/') { "r\u{e9}sum\u{e9}" } else { "/r\u{e9}sum\u{e9}" })
    } else if let Some((first, rest)) = v.split_once('\n') {
        format!("{} \u{e9}\u{20ac}\n{} \u{1f600}", first, rest)
    } else {
        format!("{} \u{e9}\u{20ac}\u{1f600}", v)
    }
}

// ---- the row macro ------------------------------------------------------------------------------------

macro_rules! row {
    (view = $view:literal, open = $open:path, print = $print:path, base = $base:expr, sibling = $sib:expr, skip = $skip:expr,
     $accessor:literal, $field:literal, $prior:literal, clear = $clear:literal, values = [$($val:expr),+],
     set = |$s:ident, $v:ident| $set:expr, clear_set = |$cs:ident| $cset:expr, clear_want = $cw:expr,
     get = |$g:ident| $get:expr, want = |$w:ident| $want:expr) => {{
        #[allow(unused_mut, unused_variables)]
        fn run(doc: &str, vi: usize) -> Result<Obs, String> {
            let (d, mut $s) = $open(doc)?;
            let vals = vec![$($val),+];
            let want: String;
            if vi < vals.len() {
                {
                    let $w = vals[vi].clone();
                    want = format!("{:?}", $want);
                }
                let $v = vals[vi].clone();
                $set;
            } else {
                let $cs = &mut $s;
                want = $cw.to_string();
                $cset;
            }
            let got = {
                let $g = &$s;
                format!("{:?}", $get)
            };
            Ok(Obs { after: $print(&d, &$s), got, want })
        }
        fn get(doc: &str) -> Result<String, String> {
            let (_d, s) = $open(doc)?;
            let $g = &s;
            Ok(format!("{:?}", $get))
        }
        fn open_live(doc: &str) -> Result<Box<dyn std::any::Any>, String> {
            Ok(Box::new($open(doc)?))
        }
        #[allow(unused_mut, unused_variables)]
        fn apply_live(any: &mut dyn std::any::Any, vi: usize) -> Result<String, String> {
            let pair = crate::props::c15::downcast_view($open, any).ok_or("another view type")?;
            let mut $s = &mut pair.1;
            let vals = vec![$($val),+];
            let want: String;
            if vi < vals.len() {
                {
                    let $w = vals[vi].clone();
                    want = format!("{:?}", $want);
                }
                let $v = vals[vi].clone();
                $set;
            } else {
                let $cs = &mut $s;
                want = $cw.to_string();
                $cset;
            }
            Ok(want)
        }
        fn get_live(any: &mut dyn std::any::Any) -> Result<String, String> {
            let pair = crate::props::c15::downcast_view($open, any).ok_or("another view type")?;
            let $g = &pair.1;
            Ok(format!("{:?}", $get))
        }
        fn print_live(any: &mut dyn std::any::Any) -> Result<String, String> {
            let pair = crate::props::c15::downcast_view($open, any).ok_or("another view type")?;
            Ok($print(&pair.0, &pair.1))
        }
        Row {
            view: $view,
            accessor: $accessor,
            field: $field,
            base: $base,
            sibling: $sib,
            prior_raw: $prior,
            n_values: [$(stringify!($val)),+].len(),
            has_clear: $clear,
            skip_priors: $skip,
            run,
            get,
            open_live,
            apply_live,
            get_live,
            print_live,
        }
    }};
}

// per-view macros: fix view name, constructor, printer, base, sibling
macro_rules! csrc { ($($t:tt)*) => { row!(view = "control::Source", open = open_csrc, print = print_control,
    base = "Source: foo\n", sibling = Some("Package: other\n"), skip = &[], $($t)*) }; }
macro_rules! csrc_para { ($($t:tt)*) => { row!(view = "control::Source", open = open_csrc_para, print = print_deb822,
    base = "Maintainer: A <a@example.com>\n", sibling = Some("Package: other\n"), skip = &[], $($t)*) }; }
macro_rules! cbin { ($($t:tt)*) => { row!(view = "control::Binary", open = open_cbin, print = print_control,
    base = "Package: foo\n", sibling = Some("Source: src\n"), skip = &[], $($t)*) }; }
macro_rules! cbin_para { ($($t:tt)*) => { row!(view = "control::Binary", open = open_cbin_para, print = print_deb822,
    base = "Architecture: any\n", sibling = Some("Source: src\n"), skip = &[], $($t)*) }; }
macro_rules! asrc { ($($t:tt)*) => { row!(view = "apt::Source", open = open_asrc, print = print_deb822,
    base = "Package: foo\n", sibling = None, skip = &[], $($t)*) }; }
macro_rules! asrc_alt { ($($t:tt)*) => { row!(view = "apt::Source", open = open_asrc, print = print_deb822,
    base = "Directory: pool/main/f/foo\n", sibling = None, skip = &[], $($t)*) }; }
macro_rules! apkg { ($($t:tt)*) => { row!(view = "apt::Package", open = open_apkg, print = print_deb822,
    base = "Package: foo\n", sibling = None, skip = &[], $($t)*) }; }
macro_rules! apkg_alt { ($($t:tt)*) => { row!(view = "apt::Package", open = open_apkg, print = print_deb822,
    base = "Filename: pool/main/f/foo/foo_1_all.deb\n", sibling = None, skip = &[], $($t)*) }; }
macro_rules! arel { ($($t:tt)*) => { row!(view = "apt::Release", open = open_arel, print = print_deb822,
    base = "Archive: x\n", sibling = None, skip = &[], $($t)*) }; }
macro_rules! chg { ($($t:tt)*) => { row!(view = "changes::Changes", open = open_changes, print = changes_text,
    base = "Source: foo\n", sibling = None, skip = &[], $($t)*) }; }
macro_rules! binfo { ($($t:tt)*) => { row!(view = "buildinfo::Buildinfo", open = open_binfo, print = print_deb822,
    base = "Build-Kernel-Version: 6.1\n", sibling = None, skip = &[], $($t)*) }; }
// a header paragraph is the first paragraph of a text starting with "Format:": priors 3 (a field
// before the base) and 4 (a paragraph before it) cannot exist
macro_rules! chdr { ($($t:tt)*) => { row!(view = "copyright::Header", open = open_chdr, print = print_copyright,
    base = CFORMAT, sibling = Some("Files: *\nCopyright: c\nLicense: MIT\n"), skip = &[3, 4], $($t)*) }; }
macro_rules! cfiles { ($($t:tt)*) => { row!(view = "copyright::FilesParagraph", open = open_cfiles, print = print_copyright_unprefixed,
    base = "Files: *\n", sibling = Some("License: MIT\n The MIT text\n"), skip = &[], $($t)*) }; }
macro_rules! d3 { ($($t:tt)*) => { row!(view = "dep3::PatchHeader", open = open_dep3, print = print_dep3,
    base = "Description: x\n", sibling = None, skip = &[], $($t)*) }; }
macro_rules! d3_alt { ($($t:tt)*) => { row!(view = "dep3::PatchHeader", open = open_dep3, print = print_dep3,
    base = "Author: A <a@example.com>\n", sibling = None, skip = &[], $($t)*) }; }

// per-shape macros ($m is a view macro)
/// setter takes &str, getter returns Option<String>
macro_rules! str_row { ($m:ident, $acc:literal, $field:literal, $prior:literal, [$($v:literal),+], $set:ident, $get:ident) => {
    $m!($acc, $field, $prior, clear = false, values = [$($v.to_string()),+, mixed_case(&[$($v),+]), non_ascii(&[$($v),+])],
        set = |s, x| s.$set(&x), clear_set = |_s| (), clear_want = "None", get = |s| s.$get(), want = |x| Some(x)) }; }
/// setter takes Option<&str>, getter returns Option<String>
macro_rules! optstr_row { ($m:ident, $acc:literal, $field:literal, $prior:literal, [$($v:literal),+], $set:ident, $get:ident) => {
    $m!($acc, $field, $prior, clear = true, values = [$($v.to_string()),+, mixed_case(&[$($v),+]), non_ascii(&[$($v),+])],
        set = |s, x| s.$set(Some(&x)), clear_set = |s| s.$set(None), clear_want = "None", get = |s| s.$get(), want = |x| Some(x)) }; }
/// setter takes Relations by value, getter returns Option<Relations>
macro_rules! rel_row { ($m:ident, $acc:literal, $field:literal, $set:ident, $get:ident) => {
    $m!($acc, $field, "old (>= 1)", clear = false,
        values = ["debhelper (>= 9), foo | bar".to_string(), "a".to_string(), "".to_string()],
        set = |s, x| s.$set(rel(&x)), clear_set = |_s| (), clear_want = "None",
        get = |s| s.$get().map(|r| r.to_string()), want = |x| Some(x)) }; }
/// setter takes Option<&Relations>, getter returns Option<Relations>
macro_rules! optrel_row { ($m:ident, $acc:literal, $field:literal, $set:ident, $get:ident) => {
    $m!($acc, $field, "old (>= 1)", clear = true,
        values = ["libc6 (>= 2.36), foo | bar".to_string(), "a".to_string(), "".to_string()],
        set = |s, x| s.$set(Some(&rel(&x))), clear_set = |s| s.$set(None), clear_want = "None",
        get = |s| s.$get().map(|r| r.to_string()), want = |x| Some(x)) }; }
/// setter takes Vec<String>, getter returns Option<Vec<String>>
macro_rules! strvec_row { ($m:ident, $acc:literal, $field:literal, $prior:literal, [$a:literal, $b:literal], $set:ident, $get:ident) => {
    $m!($acc, $field, $prior, clear = false,
        values = [vec![$a.to_string(), $b.to_string()], vec![$a.to_string()], vec![$b.to_string(), $a.to_string(), format!("{}3", $b)]],
        set = |s, x| s.$set(x), clear_set = |_s| (), clear_want = "None", get = |s| s.$get(), want = |x| Some(x)) }; }
/// setter takes Vec<checksum>, getter returns Vec<checksum>
macro_rules! cksum_row { ($m:ident, $acc:literal, $field:literal, $ty:ident, $hash:ident, $set:ident, $get:ident) => {
    $m!($acc, $field, "0000 7 old.dsc", clear = false,
        values = [vec![$ty { $hash: "d41d8cd9".to_string(), size: 1234, filename: "foo_1.0.dsc".to_string() },
                       $ty { $hash: "900150983c".to_string(), size: 5, filename: "foo_1.0.tar.xz".to_string() }],
                  vec![$ty { $hash: "abc".to_string(), size: 0, filename: "x".to_string() }],
                  Vec::<$ty>::new()],
        set = |s, x| s.$set(x), clear_set = |_s| (), clear_want = "[]", get = |s| s.$get(), want = |x| x) }; }

pub fn rows() -> Vec<Row> {
    let mut v = vec![];
    v.extend(rows_control_source());
    v.extend(rows_control_binary());
    v.extend(rows_apt_source());
    v.extend(rows_apt_package());
    v.extend(rows_apt_release());
    v.extend(rows_changes_buildinfo());
    v.extend(rows_copyright());
    v.extend(rows_dep3());
    v
}

pub fn read_rows() -> Vec<ReadRow> {
    let mut v = vec![];
    v.extend(read_control());
    v.extend(read_apt());
    v.extend(read_changes_buildinfo());
    v.extend(read_copyright());
    v.extend(read_dep3());
    v
}

macro_rules! read_row {
    ($view:literal, $acc:literal, |$d:ident| $body:expr, [$($case:expr),+ $(,)?]) => {{
        fn get($d: &str) -> Result<String, String> {
            Ok(format!("{:?}", $body))
        }
        ReadRow { view: $view, accessor: $acc, cases: &[$($case),+], get }
    }};
}

// ---- control::Source (debian/control source paragraph; Policy 5.2, 5.6) -----------------------------

fn rows_control_source() -> Vec<Row> {
    let mut v = vec![];
    // writes the field the view is found by: built over a bare paragraph (see module doc)
    v.push(str_row!(csrc_para, "name", "Source", "oldsrc", ["hello", "lib-x2"], set_name, name));
    v.push(optstr_row!(csrc, "section", "Section", "net", ["libs", "contrib/utils"], set_section, section));
    v.push(csrc!("priority", "Priority", "extra", clear = true,
        values = [Priority::Optional, Priority::Required, Priority::Extra],
        set = |s, x| s.set_priority(Some(x)), clear_set = |s| s.set_priority(None), clear_want = "None",
        get = |s| s.priority(), want = |x| Some(x)));
    // the base of csrc_para holds Maintainer, so this row uses the ordinary view
    v.push(str_row!(csrc, "maintainer", "Maintainer", "Old <old@example.com>", ["A B <ab@example.com>", "Team X <team@lists.example.org>"], set_maintainer, maintainer));
    v.push(csrc!("build_depends", "Build-Depends", "old (>= 1)", clear = false,
        values = ["debhelper (>= 9), foo | bar".to_string(), "a".to_string(), "".to_string()],
        set = |s, x| s.set_build_depends(&rel(&x)), clear_set = |_s| (), clear_want = "None",
        get = |s| s.build_depends().map(|r| r.to_string()), want = |x| Some(x)));
    v.push(str_row!(csrc, "standards_version", "Standards-Version", "3.9.8", ["4.6.0", "4.7.0.1"], set_standards_version, standards_version));
    v.push(csrc!("homepage", "Homepage", "http://old.example.net/", clear = false,
        values = ["https://example.com/".to_string(), "https://example.org/path?q=1".to_string(), "https://example.com/project/".to_string(), "https://example.com:8080/a/b/#frag".to_string()],
        set = |s, x| s.set_homepage(&x.parse::<url::Url>().unwrap()), clear_set = |_s| (), clear_want = "None",
        get = |s| s.homepage().map(|u| u.to_string()), want = |x| Some(x)));
    v.push(str_row!(csrc, "vcs_git", "Vcs-Git", "https://old.example.com/r.git", ["https://salsa.debian.org/foo/bar.git", "https://example.com/r.git -b debian/sid"], set_vcs_git, vcs_git));
    v.push(str_row!(csrc, "vcs_svn", "Vcs-Svn", "svn://old.example.com/r", ["svn://svn.example.com/foo/trunk", "https://example.com/svn/r"], set_vcs_svn, vcs_svn));
    v.push(str_row!(csrc, "vcs_bzr", "Vcs-Bzr", "lp:old", ["https://code.launchpad.net/foo", "lp:foo"], set_vcs_bzr, vcs_bzr));
    v.push(str_row!(csrc, "vcs_arch", "Vcs-Arch", "http://old.example.com/arch", ["http://arch.example.com/foo", "http://example.com/a"], set_vcs_arch, vcs_arch));
    v.push(str_row!(csrc, "vcs_svk", "Vcs-Svk", "http://old.example.com/svk", ["http://svk.example.com/foo", "http://example.com/s"], set_vcs_svk, vcs_svk));
    v.push(str_row!(csrc, "vcs_darcs", "Vcs-Darcs", "http://old.example.com/darcs", ["http://darcs.example.com/foo", "http://example.com/d"], set_vcs_darcs, vcs_darcs));
    v.push(str_row!(csrc, "vcs_mtn", "Vcs-Mtn", "old.example.com org.old", ["mtn.example.com org.example.foo", "example.com b"], set_vcs_mtn, vcs_mtn));
    v.push(str_row!(csrc, "vcs_cvs", "Vcs-Cvs", ":pserver:anon@old.example.com:/cvs old", [":pserver:anonymous@cvs.example.com:/cvs foo", ":ext:example.com:/c"], set_vcs_cvs, vcs_cvs));
    v.push(str_row!(csrc, "vcs_hg", "Vcs-Hg", "https://old.example.com/hg", ["https://hg.example.com/foo", "https://example.com/h"], set_vcs_hg, vcs_hg));
    v.push(optstr_row!(csrc, "vcs_browser", "Vcs-Browser", "https://old.example.com/browse", ["https://salsa.debian.org/foo/bar", "https://example.com/b"], set_vcs_browser, vcs_browser));
    v.push(csrc!("uploaders", "Uploaders", "Old <old@example.com>", clear = false,
        values = [vec!["A <a@example.com>".to_string(), "B <b@example.com>".to_string()], vec!["C <c@example.com>".to_string()],
                  vec!["B <b@example.com>".to_string(), "J\u{e9}r\u{f4}me \u{141}ukasz <j@example.com>".to_string(), "A <a@example.com>".to_string()]],
        set = |s, x| s.set_uploaders(&x.iter().map(|u| u.as_str()).collect::<Vec<_>>()), clear_set = |_s| (), clear_want = "None",
        get = |s| s.uploaders(), want = |x| Some(x)));
    v.push(optstr_row!(csrc, "architecture", "Architecture", "i386", ["any", "linux-any all"], set_architecture, architecture));
    // a valid prior value that is neither yes nor no exists (Policy 5.6.31): binary-targets
    v.push(csrc!("rules_requires_root", "Rules-Requires-Root", "binary-targets", clear = false,
        values = [false, true],
        set = |s, x| s.set_rules_requires_root(x), clear_set = |_s| (), clear_want = "None",
        get = |s| s.rules_requires_root(), want = |x| Some(x)));
    v.push(str_row!(csrc, "testsuite", "Testsuite", "autopkgtest-pkg-perl", ["autopkgtest", "autopkgtest-pkg-python"], set_testsuite, testsuite));
    v
}

// ---- control::Binary (debian/control binary paragraph; Policy 5.2, 5.6, 7) ----------------------------

fn rows_control_binary() -> Vec<Row> {
    let mut v = vec![];
    v.push(str_row!(cbin_para, "name", "Package", "oldpkg", ["hello", "libx2-dev"], set_name, name));
    v.push(optstr_row!(cbin, "section", "Section", "net", ["libs", "contrib/utils"], set_section, section));
    v.push(cbin!("priority", "Priority", "extra", clear = true,
        values = [Priority::Optional, Priority::Important],
        set = |s, x| s.set_priority(Some(x)), clear_set = |s| s.set_priority(None), clear_want = "None",
        get = |s| s.priority(), want = |x| Some(x)));
    v.push(optstr_row!(cbin, "architecture", "Architecture", "i386", ["any", "amd64 arm64"], set_architecture, architecture));
    v.push(optrel_row!(cbin, "depends", "Depends", set_depends, depends));
    v.push(optrel_row!(cbin, "recommends", "Recommends", set_recommends, recommends));
    v.push(optrel_row!(cbin, "suggests", "Suggests", set_suggests, suggests));
    v.push(optrel_row!(cbin, "enhances", "Enhances", set_enhances, enhances));
    v.push(optrel_row!(cbin, "pre_depends", "Pre-Depends", set_pre_depends, pre_depends));
    v.push(optrel_row!(cbin, "breaks", "Breaks", set_breaks, breaks));
    v.push(optrel_row!(cbin, "conflicts", "Conflicts", set_conflicts, conflicts));
    v.push(optrel_row!(cbin, "replaces", "Replaces", set_replaces, replaces));
    v.push(optrel_row!(cbin, "provides", "Provides", set_provides, provides));
    v.push(optrel_row!(cbin, "built_using", "Built-Using", set_built_using, built_using));
    // MultiArch is not Clone: the menu holds the spelling
    v.push(cbin!("multi_arch", "Multi-Arch", "allowed", clear = true,
        values = ["same".to_string(), "foreign".to_string(), "no".to_string()],
        set = |s, x| s.set_multi_arch(Some(x.parse::<MultiArch>().unwrap())), clear_set = |s| s.set_multi_arch(None), clear_want = "None",
        get = |s| s.multi_arch(), want = |x| Some(x.parse::<MultiArch>().unwrap())));
    // set_essential(false) is the clearing call of this bool accessor (Policy 5.6.9: absent == no);
    // the only raw value other than the one written is "no"
    v.push(cbin!("essential", "Essential", "no", clear = true,
        values = [true],
        set = |s, x| s.set_essential(x), clear_set = |s| s.set_essential(false), clear_want = "false",
        get = |s| s.essential(), want = |x| x));
    v.push(optstr_row!(cbin, "description", "Description", "old short\nold long 1\nold long 2\nold long 3", ["a short description", "short line\nlong text line 1\n.\nlong text line 2"], set_description, description));
    v.push(cbin!("homepage", "Homepage", "http://old.example.net/", clear = false,
        values = ["https://example.com/".to_string(), "https://example.org/path?q=1".to_string(), "https://example.com/project/".to_string(), "https://example.com:8080/a/b/#frag".to_string()],
        set = |s, x| s.set_homepage(&x.parse::<url::Url>().unwrap()), clear_set = |_s| (), clear_want = "None",
        get = |s| s.homepage().map(|u| u.to_string()), want = |x| Some(x)));
    v
}

// ---- apt::Source (a stanza of an apt Sources index; field names as in .dsc / Sources files) -----------

fn rows_apt_source() -> Vec<Row> {
    let mut v = vec![];
    // the default base is "Package: foo": this row needs another one
    v.push(str_row!(asrc_alt, "package", "Package", "oldsrc", ["hello", "lib-x2"], set_package, package));
    v.push(asrc!("version", "Version", "0.9-1", clear = false,
        values = ["1.0-1".to_string(), "2:3.4~rc1-2+b1".to_string()],
        set = |s, x| s.set_version(x.parse::<debversion::Version>().unwrap()), clear_set = |_s| (), clear_want = "None",
        get = |s| s.version().map(|x| x.to_string()), want = |x| Some(x)));
    v.push(str_row!(asrc, "maintainer", "Maintainer", "Old <old@example.com>", ["A B <ab@example.com>", "Team X <team@lists.example.org>"], set_maintainer, maintainer));
    v.push(strvec_row!(asrc, "uploaders", "Uploaders", "Old <old@example.com>", ["A <a@example.com>", "B <b@example.com>"], set_uploaders, uploaders));
    v.push(str_row!(asrc, "standards_version", "Standards-Version", "3.9.8", ["4.6.0", "4.7.0.1"], set_standards_version, standards_version));
    v.push(str_row!(asrc, "format", "Format", "1.0", ["3.0 (quilt)", "3.0 (native)"], set_format, format));
    v.push(str_row!(asrc, "vcs_browser", "Vcs-Browser", "https://old.example.com/browse", ["https://salsa.debian.org/foo/bar", "https://example.com/b"], set_vcs_browser, vcs_browser));
    v.push(str_row!(asrc, "vcs_git", "Vcs-Git", "https://old.example.com/r.git", ["https://salsa.debian.org/foo/bar.git", "https://example.com/r.git -b debian/sid"], set_vcs_git, vcs_git));
    v.push(str_row!(asrc, "vcs_svn", "Vcs-Svn", "svn://old.example.com/r", ["svn://svn.example.com/foo/trunk", "https://example.com/svn/r"], set_vcs_svn, vcs_svn));
    v.push(str_row!(asrc, "vcs_hg", "Vcs-Hg", "https://old.example.com/hg", ["https://hg.example.com/foo", "https://example.com/h"], set_vcs_hg, vcs_hg));
    v.push(str_row!(asrc, "vcs_bzr", "Vcs-Bzr", "lp:old", ["https://code.launchpad.net/foo", "lp:foo"], set_vcs_bzr, vcs_bzr));
    v.push(str_row!(asrc, "vcs_arch", "Vcs-Arch", "http://old.example.com/arch", ["http://arch.example.com/foo", "http://example.com/a"], set_vcs_arch, vcs_arch));
    v.push(str_row!(asrc, "vcs_svk", "Vcs-Svk", "http://old.example.com/svk", ["http://svk.example.com/foo", "http://example.com/s"], set_vcs_svk, vcs_svk));
    v.push(str_row!(asrc, "vcs_darcs", "Vcs-Darcs", "http://old.example.com/darcs", ["http://darcs.example.com/foo", "http://example.com/d"], set_vcs_darcs, vcs_darcs));
    v.push(str_row!(asrc, "vcs_mtn", "Vcs-Mtn", "old.example.com org.old", ["mtn.example.com org.example.foo", "example.com b"], set_vcs_mtn, vcs_mtn));
    v.push(str_row!(asrc, "vcs_cvs", "Vcs-Cvs", ":pserver:anon@old.example.com:/cvs old", [":pserver:anonymous@cvs.example.com:/cvs foo", ":ext:example.com:/c"], set_vcs_cvs, vcs_cvs));
    v.push(rel_row!(asrc, "build_depends", "Build-Depends", set_build_depends, build_depends));
    v.push(rel_row!(asrc, "build_depends_indep", "Build-Depends-Indep", set_build_depends_indep, build_depends_indep));
    v.push(rel_row!(asrc, "build_depends_arch", "Build-Depends-Arch", set_build_depends_arch, build_depends_arch));
    v.push(rel_row!(asrc, "build_conflicts", "Build-Conflicts", set_build_conflicts, build_conflicts));
    v.push(rel_row!(asrc, "build_conflicts_indep", "Build-Conflicts-Indep", set_build_conflicts_indep, build_conflicts_indep));
    v.push(rel_row!(asrc, "build_conflicts_arch", "Build-Conflicts-Arch", set_build_conflicts_arch, build_conflicts_arch));
    // Binary is a comma-separated list of package names, held as Relations
    v.push(asrc!("binary", "Binary", "oldbin", clear = false,
        values = ["foo, libfoo1, libfoo-dev".to_string(), "foo".to_string(), "".to_string()],
        set = |s, x| s.set_binary(rel(&x)), clear_set = |_s| (), clear_want = "None",
        get = |s| s.binary().map(|r| r.to_string()), want = |x| Some(x)));
    v.push(str_row!(asrc, "homepage", "Homepage", "http://old.example.net/", ["https://example.com/", "https://example.org/path?q=1"], set_homepage, homepage));
    v.push(str_row!(asrc, "section", "Section", "net", ["libs", "contrib/utils"], set_section, section));
    v.push(asrc!("priority", "Priority", "extra", clear = false,
        values = [Priority::Optional, Priority::Standard],
        set = |s, x| s.set_priority(x), clear_set = |_s| (), clear_want = "None",
        get = |s| s.priority(), want = |x| Some(x)));
    v.push(str_row!(asrc, "architecture", "Architecture", "i386", ["any", "any all"], set_architecture, architecture));
    v.push(str_row!(asrc, "directory", "Directory", "pool/main/o/old", ["pool/main/f/foo", "pool/contrib/libf/libfoo"], set_directory, directory));
    v.push(str_row!(asrc, "testsuite", "Testsuite", "autopkgtest-pkg-perl", ["autopkgtest", "autopkgtest-pkg-python"], set_testsuite, testsuite));
    v.push(cksum_row!(asrc, "files", "Files", Md5Checksum, md5sum, set_files, files));
    v.push(cksum_row!(asrc, "checksums_sha1", "Checksums-Sha1", Sha1Checksum, sha1, set_checksums_sha1, checksums_sha1));
    v.push(cksum_row!(asrc, "checksums_sha256", "Checksums-Sha256", Sha256Checksum, sha256, set_checksums_sha256, checksums_sha256));
    v.push(cksum_row!(asrc, "checksums_sha512", "Checksums-Sha512", Sha512Checksum, sha512, set_checksums_sha512, checksums_sha512));
    v
}

// ---- apt::Package (a stanza of an apt Packages index) ---------------------------------------------------

fn rows_apt_package() -> Vec<Row> {
    let mut v = vec![];
    v.push(str_row!(apkg_alt, "name", "Package", "oldpkg", ["hello", "libx2-dev"], set_name, name));
    v.push(apkg!("version", "Version", "0.9-1", clear = false,
        values = ["1.0-1".to_string(), "2:3.4~rc1-2+b1".to_string()],
        set = |s, x| s.set_version(x.parse::<debversion::Version>().unwrap()), clear_set = |_s| (), clear_want = "None",
        get = |s| s.version().map(|x| x.to_string()), want = |x| Some(x)));
    v.push(apkg!("installed_size", "Installed-Size", "77", clear = false,
        values = [0usize, 123456usize],
        set = |s, x| s.set_installed_size(x), clear_set = |_s| (), clear_want = "None",
        get = |s| s.installed_size(), want = |x| Some(x)));
    v.push(str_row!(apkg, "maintainer", "Maintainer", "Old <old@example.com>", ["A B <ab@example.com>", "Team X <team@lists.example.org>"], set_maintainer, maintainer));
    v.push(str_row!(apkg, "architecture", "Architecture", "i386", ["amd64", "all"], set_architecture, architecture));
    v.push(rel_row!(apkg, "depends", "Depends", set_depends, depends));
    v.push(rel_row!(apkg, "recommends", "Recommends", set_recommends, recommends));
    v.push(rel_row!(apkg, "suggests", "Suggests", set_suggests, suggests));
    v.push(rel_row!(apkg, "enhances", "Enhances", set_enhances, enhances));
    v.push(rel_row!(apkg, "pre_depends", "Pre-Depends", set_pre_depends, pre_depends));
    v.push(rel_row!(apkg, "breaks", "Breaks", set_breaks, breaks));
    v.push(rel_row!(apkg, "conflicts", "Conflicts", set_conflicts, conflicts));
    v.push(rel_row!(apkg, "replaces", "Replaces", set_replaces, replaces));
    v.push(rel_row!(apkg, "provides", "Provides", set_provides, provides));
    v.push(str_row!(apkg, "section", "Section", "net", ["libs", "contrib/utils"], set_section, section));
    v.push(apkg!("priority", "Priority", "extra", clear = false,
        values = [Priority::Optional, Priority::Standard],
        set = |s, x| s.set_priority(x), clear_set = |_s| (), clear_want = "None",
        get = |s| s.priority(), want = |x| Some(x)));
    v.push(str_row!(apkg, "description", "Description", "old short\nold long 1\nold long 2\nold long 3", ["a short description", "short line\nlong text line 1\n.\nlong text line 2"], set_description, description));
    v.push(apkg!("homepage", "Homepage", "http://old.example.net/", clear = false,
        values = ["https://example.com/".to_string(), "https://example.org/path?q=1".to_string(), "https://example.com/project/".to_string(), "https://example.com:8080/a/b/#frag".to_string()],
        set = |s, x| s.set_homepage(&x.parse::<url::Url>().unwrap()), clear_set = |_s| (), clear_want = "None",
        get = |s| s.homepage().map(|u| u.to_string()), want = |x| Some(x)));
    v.push(str_row!(apkg, "source", "Source", "oldsrc", ["hello", "hello (1.0-1)"], set_source, source));
    v.push(str_row!(apkg, "description_md5", "Description-md5", "00000000000000000000000000000000", ["d41d8cd98f00b204e9800998ecf8427e", "900150983cd24fb0d6963f7d28e17f72"], set_description_md5, description_md5));
    // tags(name)/set_tags(name, ..) take the field name; the Packages field for debtags is "Tag"
    v.push(apkg!("tags(\"Tag\")", "Tag", "role::old", clear = false,
        values = [vec!["role::program".to_string(), "uitoolkit::gtk".to_string()], vec!["role::shared-lib".to_string()]],
        set = |s, x| s.set_tags("Tag", x), clear_set = |_s| (), clear_want = "None",
        get = |s| s.tags("Tag"), want = |x| Some(x)));
    // the default base of apkg_alt holds Filename, so this row uses the ordinary view
    v.push(str_row!(apkg, "filename", "Filename", "pool/main/o/old/old_1_all.deb", ["pool/main/f/foo/foo_1.0-1_amd64.deb", "pool/x.deb"], set_filename, filename));
    v.push(apkg!("size", "Size", "77", clear = false,
        values = [0usize, 123456usize],
        set = |s, x| s.set_size(x), clear_set = |_s| (), clear_want = "None",
        get = |s| s.size(), want = |x| Some(x)));
    v.push(str_row!(apkg, "md5sum", "MD5sum", "00000000000000000000000000000000", ["d41d8cd98f00b204e9800998ecf8427e", "900150983cd24fb0d6963f7d28e17f72"], set_md5sum, md5sum));
    v.push(str_row!(apkg, "sha256", "SHA256", "0000", ["e3b0c44298fc1c149afbf4c8996fb92427ae41e4649b934ca495991b7852b855", "ba7816bf"], set_sha256, sha256));
    v.push(apkg!("multi_arch", "Multi-Arch", "allowed", clear = false,
        values = ["same".to_string(), "foreign".to_string(), "no".to_string()],
        set = |s, x| s.set_multi_arch(x.parse::<MultiArch>().unwrap()), clear_set = |_s| (), clear_want = "None",
        get = |s| s.multi_arch(), want = |x| Some(x.parse::<MultiArch>().unwrap())));
    v
}

// ---- apt::Release (field names as in https://wiki.debian.org/DebianRepository/Format) -------------------

fn rows_apt_release() -> Vec<Row> {
    fn date(s: &str) -> chrono::DateTime<chrono::FixedOffset> {
        chrono::DateTime::parse_from_rfc3339(s).unwrap()
    }
    let mut v = vec![];
    v.push(str_row!(arel, "origin", "Origin", "Old", ["Debian", "Example Org"], set_origin, origin));
    v.push(str_row!(arel, "label", "Label", "Old", ["Debian", "Debian-Security"], set_label, label));
    v.push(str_row!(arel, "suite", "Suite", "oldstable", ["stable", "unstable"], set_suite, suite));
    v.push(str_row!(arel, "codename", "Codename", "buster", ["bookworm", "sid"], set_codename, codename));
    v.push(strvec_row!(arel, "changelogs", "Changelogs", "https://old.example.com/changelogs/@CHANGEPATH@",
        ["https://metadata.ftp-master.debian.org/changelogs/@CHANGEPATH@_changelog", "https://example.com/c/@CHANGEPATH@"], set_changelogs, changelogs));
    v.push(arel!("date", "Date", "Mon, 01 Jan 2001 00:00:00 +0000", clear = false,
        values = [date("2024-03-09T10:11:12+00:00"), date("2025-12-31T23:59:59+00:00"), date("2023-12-02T08:19:33+02:00"), date("2024-06-30T23:30:00-05:30")],
        set = |s, x| s.set_date(x), clear_set = |_s| (), clear_want = "None",
        get = |s| s.date(), want = |x| Some(x)));
    v.push(arel!("valid_until", "Valid-Until", "Mon, 01 Jan 2001 00:00:00 +0000", clear = false,
        values = [date("2024-03-16T10:11:12+00:00"), date("2026-01-07T23:59:59+00:00"), date("2023-12-09T08:19:33+02:00"), date("2024-07-07T23:30:00-05:30")],
        set = |s, x| s.set_valid_until(x), clear_set = |_s| (), clear_want = "None",
        get = |s| s.valid_until(), want = |x| Some(x)));
    // bool fields have only two raw values: the prior value is the opposite of value #0
    v.push(arel!("acquire_by_hash", "Acquire-By-Hash", "no", clear = false,
        values = [true, false],
        set = |s, x| s.set_acquire_by_hash(x), clear_set = |_s| (), clear_want = "false",
        get = |s| s.acquire_by_hash(), want = |x| x));
    // spelled "No-Support-for-Architecture-all" in the repository format description and in apt
    v.push(arel!("no_support_for_architecture_all", "No-Support-for-Architecture-all", "no", clear = false,
        values = [true, false],
        set = |s, x| s.set_no_support_for_architecture_all(x), clear_set = |_s| (), clear_want = "false",
        get = |s| s.no_support_for_architecture_all(), want = |x| x));
    v.push(strvec_row!(arel, "architectures", "Architectures", "i386", ["amd64", "arm64"], set_architectures, architectures));
    v.push(strvec_row!(arel, "components", "Components", "oldmain", ["main", "contrib"], set_components, components));
    v.push(str_row!(arel, "description", "Description", "Old description", ["Debian x.y Released 1 January 2024", "An archive"], set_description, description));
    v.push(cksum_row!(arel, "checksums_md5", "MD5Sum", Md5Checksum, md5sum, set_checksums_md5, checksums_md5));
    v.push(cksum_row!(arel, "checksums_sha1", "SHA1", Sha1Checksum, sha1, set_checksums_sha1, checksums_sha1));
    v.push(cksum_row!(arel, "checksums_sha256", "SHA256", Sha256Checksum, sha256, set_checksums_sha256, checksums_sha256));
    v.push(cksum_row!(arel, "checksums_sha512", "SHA512", Sha512Checksum, sha512, set_checksums_sha512, checksums_sha512));
    v
}

// ---- changes::Changes (one pair) and buildinfo::Buildinfo (deb-changes(5), deb-buildinfo(5)) -------------

fn rows_changes_buildinfo() -> Vec<Row> {
    fn sorted(m: std::collections::HashMap<String, String>) -> Vec<(String, String)> {
        let mut v: Vec<_> = m.into_iter().collect();
        v.sort();
        v
    }
    let mut v = vec![];
    v.push(str_row!(chg, "format", "Format", "1.7", ["1.8", "2.0"], set_format, format));

    v.push(str_row!(binfo, "source", "Source", "oldsrc", ["hello", "hello (1.0-1)"], set_source, source));
    v.push(strvec_row!(binfo, "binaries", "Binary", "oldbin", ["foo", "libfoo1"], set_binaries, binaries));
    v.push(binfo!("version", "Version", "0.9-1", clear = false,
        values = ["1.0-1".to_string(), "2:3.4~rc1-2+b1".to_string()],
        set = |s, x| s.set_version(x.parse::<debversion::Version>().unwrap()), clear_set = |_s| (), clear_want = "None",
        get = |s| s.version().map(|x| x.to_string()), want = |x| Some(x)));
    v.push(str_row!(binfo, "build_architecture", "Build-Architecture", "i386", ["amd64", "arm64"], set_build_architecture, build_architecture));
    v.push(str_row!(binfo, "architecture", "Architecture", "i386", ["amd64 all source", "all"], set_architecture, architecture));
    v.push(cksum_row!(binfo, "checksums_sha256", "Checksums-Sha256", Sha256Checksum, sha256, set_checksums_sha256, checksums_sha256));
    v.push(cksum_row!(binfo, "checksums_sha1", "Checksums-Sha1", Sha1Checksum, sha1, set_checksums_sha1, checksums_sha1));
    v.push(cksum_row!(binfo, "checksums_md5", "Checksums-Md5", Md5Checksum, md5sum, set_checksums_md5, checksums_md5));
    v.push(str_row!(binfo, "build_origin", "Build-Origin", "Old", ["Debian", "Ubuntu"], set_build_origin, build_origin));
    v.push(str_row!(binfo, "build_date", "Build-Date", "Mon, 01 Jan 2001 00:00:00 +0000", ["Sat, 09 Mar 2024 10:11:12 +0000", "Wed, 31 Dec 2025 23:59:59 +0100"], set_build_date, build_date));
    v.push(strvec_row!(binfo, "build_tainted_by", "Build-Tainted-By", "old-taint", ["merged-usr-via-aliased-dirs", "usr-local-has-programs"], set_build_tainted_by, build_tainted_by));
    v.push(str_row!(binfo, "format", "Format", "0.9", ["1.0", "1.1"], set_format, format));
    v.push(str_row!(binfo, "build_path", "Build-Path", "/old/path", ["/build/hello-1.0", "/build/reproducible-path/x"], set_build_path, build_path));
    // HashMap: compared as a sorted vector
    v.push(binfo!("environment", "Environment", "OLD=\"1\"", clear = false,
        values = [vec![("DEB_BUILD_OPTIONS".to_string(), "\"parallel=4\"".to_string()), ("LANG".to_string(), "\"C.UTF-8\"".to_string())],
                  vec![("LC_ALL".to_string(), "\"C\"".to_string())],
                  Vec::<(String, String)>::new()],
        set = |s, x| s.set_environment(x.into_iter().collect()), clear_set = |_s| (), clear_want = "None",
        get = |s| s.environment().map(sorted), want = |x| Some(x)));
    v.push(rel_row!(binfo, "installed_build_depends", "Installed-Build-Depends", set_installed_build_depends, installed_build_depends));
    v
}

// ---- copyright::Header and copyright::FilesParagraph (DEP-5 / copyright-format 1.0) --------------------------

fn rows_copyright() -> Vec<Row> {
    let mut v = vec![];
    v.push(str_row!(chdr, "upstream_name", "Upstream-Name", "oldname", ["hello", "Hello World"], set_upstream_name, upstream_name));
    v.push(str_row!(chdr, "upstream_contact", "Upstream-Contact", "Old <old@example.com>", ["A B <ab@example.com>", "https://example.com/contact"], set_upstream_contact, upstream_contact));
    v.push(str_row!(chdr, "source", "Source", "https://old.example.com/", ["https://example.com/hello", "https://example.org/dl/"], set_source, source));
    v.push(chdr!("files_excluded", "Files-Excluded", "old/*", clear = false,
        values = [vec!["vendor/*".to_string(), "*.min.js".to_string()], vec!["docs/rfc*.txt".to_string()]],
        set = |s, x| s.set_files_excluded(&x.iter().map(|u| u.as_str()).collect::<Vec<_>>()), clear_set = |_s| (), clear_want = "None",
        get = |s| s.files_excluded(), want = |x| Some(x)));

    v.push(cfiles!("copyright", "Copyright", "1999 Old Holder", clear = false,
        values = [vec!["2020 A <a@example.com>".to_string(), "2021-2023 B".to_string()], vec!["2024 C".to_string()]],
        set = |s, x| s.set_copyright(&x.iter().map(|u| u.as_str()).collect::<Vec<_>>()), clear_set = |_s| (), clear_want = "[]",
        get = |s| s.copyright(), want = |x| x));
    v.push(str_row!(cfiles, "comment", "Comment", "old comment", ["a comment", "first line\nsecond line"], set_comment, comment));
    v.push(cfiles!("license", "License", "Apache-2.0", clear = false,
        values = [License::Name("GPL-2+".to_string()),
                  License::Named("Expat".to_string(), "Permission is hereby granted, free of charge,\nto any person".to_string()),
                  License::Text("Some custom terms.\nSecond line of them.".to_string()),
                  License::Text("One line of custom terms.".to_string())],
        set = |s, x| s.set_license(&x), clear_set = |_s| (), clear_want = "None",
        get = |s| s.license(), want = |x| Some(x)));
    v
}

// ---- dep3::PatchHeader (DEP-3) ------------------------------------------------------------------------------

fn rows_dep3() -> Vec<Row> {
    let mut v = vec![];
    v.push(d3!("origin", "Origin", "backport, commit:0000", clear = false,
        values = [(Some(OriginCategory::Upstream), Origin::Commit("abc123".to_string())),
                  (None, Origin::Other("https://example.com/patch/1".to_string())),
                  (Some(OriginCategory::Vendor), Origin::Other("https://bugs.debian.org/1".to_string())),
                  // free text holding the category separator, with and without a category in front
                  (None, Origin::Other("Ubuntu, https://launchpad.net/ubuntu/+source/x".to_string())),
                  (Some(OriginCategory::Other), Origin::Other("Fedora, https://example.com/p, rebased".to_string()))],
        set = |s, x| s.set_origin(x.0, x.1), clear_set = |_s| (), clear_want = "None",
        get = |s| s.origin(), want = |x| Some(x)));
    v.push(d3!("forwarded", "Forwarded", "https://old.example.com/1", clear = false,
        values = [Forwarded::No, Forwarded::NotNeeded, Forwarded::Yes("https://lists.example.com/2024/1.html".to_string()),
                  // a reference with upper-case letters, and one that is a keyword in another letter case
                  Forwarded::Yes("https://Lists.Example.com/Archive/Msg1.HTML".to_string()), Forwarded::Yes("No".to_string())],
        set = |s, x| s.set_forwarded(x), clear_set = |_s| (), clear_want = "None",
        get = |s| s.forwarded(), want = |x| Some(x)));
    // DEP-3: "Author or From"; the documented name is Author (From is the git-format-patch alias, read in read_dep3)
    v.push(str_row!(d3, "author", "Author", "Old <old@example.com>", ["A B <ab@example.com>", "C <c@example.org>"], set_author, author));
    v.push(d3!("last_update", "Last-Update", "2001-02-03", clear = false,
        values = [chrono::NaiveDate::from_ymd_opt(2024, 3, 9).unwrap(), chrono::NaiveDate::from_ymd_opt(2025, 12, 31).unwrap()],
        set = |s, x| s.set_last_update(x), clear_set = |_s| (), clear_want = "None",
        get = |s| s.last_update(), want = |x| Some(x)));
    v.push(d3!("applied_upstream", "Applied-Upstream", "0.9", clear = false,
        values = [AppliedUpstream::Commit("abc123".to_string()), AppliedUpstream::Other("1.2, https://example.com/c/1".to_string())],
        set = |s, x| s.set_applied_upstream(x), clear_set = |_s| (), clear_want = "None",
        get = |s| s.applied_upstream(), want = |x| Some(x)));
    // set_upstream_bug / bugs(): the upstream bug is the vendor-less "Bug" field
    v.push(d3!("upstream_bug", "Bug", "https://old.example.com/bug/0", clear = false,
        values = ["https://bugzilla.example.com/1".to_string(), "https://example.com/issues/2".to_string()],
        set = |s, x| s.set_upstream_bug(&x), clear_set = |_s| (), clear_want = "[]",
        get = |s| s.bugs().filter(|(k, _)| k.is_none()).map(|(_, b)| b).collect::<Vec<_>>(), want = |x| vec![x]));
    v.push(d3!("vendor_bug(\"Debian\")", "Bug-Debian", "https://bugs.debian.org/1", clear = false,
        values = ["https://bugs.debian.org/123456".to_string(), "https://bugs.debian.org/7".to_string()],
        set = |s, x| s.set_vendor_bug("Debian", &x), clear_set = |_s| (), clear_want = "[]",
        get = |s| s.vendor_bugs("Debian").collect::<Vec<_>>(), want = |x| vec![x]));
    // these two write Description: another base
    v.push(str_row!(d3_alt, "description", "Description", "old short\nold long 1\nold long 2\nold long 3", ["Fix the frobnicator", "Use FHS paths"], set_description, description));
    v.push(str_row!(d3_alt, "long_description", "Description", "old short\nold long 1\nold long 2\nold long 3", ["Upstream is not interested.", "line 1\nline 2"], set_long_description, long_description));
    v
}

// ==== reading tables =============================================================================================

fn csource(doc: &str) -> Result<Source, String> {
    control(doc)?.source().ok_or_else(|| "no source paragraph".to_string())
}
fn cbinary(doc: &str) -> Result<Binary, String> {
    control(doc)?.binaries().next().ok_or_else(|| "no binary paragraph".to_string())
}

fn read_control() -> Vec<ReadRow> {
    vec![
        // -- classification: the source paragraph is the one with a Source field, wherever it stands
        read_row!("control::Control", "source().name()", |d| control(d)?.source().and_then(|s| s.name()), [
            ("Source: foo\n\nPackage: a\n", "Some(\"foo\")"),
            ("Package: a\n\nSource: foo\nSection: x\n", "Some(\"foo\")"),
            ("Package: a\n\nPackage: b\n\nSource: foo\n", "Some(\"foo\")"),
            ("# c\nX-Other: 1\n\n# d\nSource: foo\n\nPackage: a\n", "Some(\"foo\")"),
            ("Maintainer: x\nSource: foo\n", "Some(\"foo\")"),
            ("Package: a\n", "None"),
            ("", "None"),
            // near misses of the distinguishing field
            ("X-Source: s\n\nPackage: a\n", "None"),
            ("Source-Version: 1\nSources: s\n\nPackage: a\n", "None"),
        ]),
        read_row!("control::Control", "binaries().name()", |d| control(d)?.binaries().map(|b| b.name()).collect::<Vec<_>>(), [
            ("Source: foo\n\nPackage: a\n\nPackage: b\n", "[Some(\"a\"), Some(\"b\")]"),
            ("Package: a\n\nSource: foo\n\nPackage: b\n", "[Some(\"a\"), Some(\"b\")]"),
            ("Source: foo\n\n# c\n\nX-Other: 1\n\nPackage: a\nArchitecture: any\n", "[Some(\"a\")]"),
            ("Source: foo\n\nArchitecture: any\nPackage: a\n", "[Some(\"a\")]"),
            ("Source: foo\n", "[]"),
            ("Source: foo\n\nPackage-Type: udeb\nArchitecture: any\n", "[]"),
            ("Source: foo\n\nPackage-List: a deb net optional\nX-Package: b\n\nPackage: c\n", "[Some(\"c\")]"),
            ("", "[]"),
        ]),
        // a field of the source paragraph is read from the source paragraph, not from the first one
        read_row!("control::Control", "source().section() / binaries().section()", |d| {
            let c = control(d)?;
            (c.source().and_then(|s| s.section()), c.binaries().map(|b| b.section()).collect::<Vec<_>>())
        }, [
            ("Package: a\nSection: libs\n\nSource: foo\nSection: net\n\nPackage: b\n", "(Some(\"net\"), [Some(\"libs\"), None])"),
        ]),
        // -- control::Source readers
        read_row!("control::Source", "uploaders", |d| csource(d)?.uploaders(), [
            ("Source: foo\nUploaders: A <a@example.com>\n", "Some([\"A <a@example.com>\"])"),
            ("Source: foo\nUploaders: A <a@example.com>, B <b@example.com>\n", "Some([\"A <a@example.com>\", \"B <b@example.com>\"])"),
            ("Source: foo\nUploaders: A <a@example.com>,\n B <b@example.com>,\n C <c@example.com>\n", "Some([\"A <a@example.com>\", \"B <b@example.com>\", \"C <c@example.com>\"])"),
            ("Source: foo\nUploaders:\n A <a@example.com>,\n B <b@example.com>\n", "Some([\"A <a@example.com>\", \"B <b@example.com>\"])"),
            // the layout `wrap-and-sort -t` writes (a comma after the last one too), no blank after the comma, a doubled comma
            ("Source: foo\nUploaders:\n A <a@example.com>,\n B <b@example.com>,\n", "Some([\"A <a@example.com>\", \"B <b@example.com>\"])"),
            ("Source: foo\nUploaders: A <a@example.com>,B <b@example.com>\n", "Some([\"A <a@example.com>\", \"B <b@example.com>\"])"),
            ("Source: foo\nUploaders: A <a@example.com>,, B <b@example.com>\n", "Some([\"A <a@example.com>\", \"B <b@example.com>\"])"),
            ("Source: foo\n", "None"),
        ]),
        read_row!("control::Source", "priority", |d| csource(d)?.priority(), [
            ("Source: foo\nPriority: optional\n", "Some(Optional)"),
            ("Source: foo\nPriority: required\n", "Some(Required)"),
            ("Source: foo\nPriority: important\n", "Some(Important)"),
            ("Source: foo\nPriority: standard\n", "Some(Standard)"),
            ("Source: foo\nPriority: extra\n", "Some(Extra)"),
            ("Source: foo\n", "None"),
        ]),
        // Policy 5.6.31: yes/no flag; "binary-targets" (the default) means root is required
        read_row!("control::Source", "rules_requires_root", |d| csource(d)?.rules_requires_root(), [
            ("Source: foo\nRules-Requires-Root: no\n", "Some(false)"),
            ("Source: foo\nRules-Requires-Root: yes\n", "Some(true)"),
            ("Source: foo\n", "None"),
            ("Source: foo\nRules-Requires-Root: binary-targets\n", "Some(true)"),
        ]),
        read_row!("control::Source", "build_depends", |d| csource(d)?.build_depends().map(|r| r.entries().map(|e| e.to_string()).collect::<Vec<_>>()), [
            ("Source: foo\nBuild-Depends: debhelper-compat (= 13), a | b\n", "Some([\"debhelper-compat (= 13)\", \"a | b\"])"),
            ("Source: foo\nBuild-Depends:\n debhelper-compat (= 13),\n python3 <!nocheck>,\n", "Some([\"debhelper-compat (= 13)\", \"python3 <!nocheck>\"])"),
            ("Source: foo\n", "None"),
        ]),
        // getter-only relation readers
        read_row!("control::Source", "build_depends_indep", |d| csource(d)?.build_depends_indep().map(|r| r.to_string()), [
            ("Source: foo\nBuild-Depends-Indep: a, b (>= 1)\n", "Some(\"a, b (>= 1)\")"), ("Source: foo\nBuild-Depends: x\n", "None")]),
        read_row!("control::Source", "build_depends_arch", |d| csource(d)?.build_depends_arch().map(|r| r.to_string()), [
            ("Source: foo\nBuild-Depends-Arch: a, b (>= 1)\n", "Some(\"a, b (>= 1)\")"), ("Source: foo\nBuild-Depends: x\n", "None")]),
        read_row!("control::Source", "build_conflicts", |d| csource(d)?.build_conflicts().map(|r| r.to_string()), [
            ("Source: foo\nBuild-Conflicts: a, b (>= 1)\n", "Some(\"a, b (>= 1)\")"), ("Source: foo\nBuild-Depends: x\n", "None")]),
        read_row!("control::Source", "build_conflicts_indep", |d| csource(d)?.build_conflicts_indep().map(|r| r.to_string()), [
            ("Source: foo\nBuild-Conflicts-Indep: a, b (>= 1)\n", "Some(\"a, b (>= 1)\")"), ("Source: foo\nBuild-Conflicts: x\n", "None")]),
        read_row!("control::Source", "build_conflicts_arch", |d| csource(d)?.build_conflicts_arch().map(|r| r.to_string()), [
            ("Source: foo\nBuild-Conflicts-Arch: a, b (>= 1)\n", "Some(\"a, b (>= 1)\")"), ("Source: foo\nBuild-Conflicts: x\n", "None")]),
        read_row!("control::Source", "homepage", |d| csource(d)?.homepage().map(|u| u.to_string()), [
            ("Source: foo\nHomepage: https://example.com/hello\n", "Some(\"https://example.com/hello\")"), ("Source: foo\n", "None")]),
        // "Return the Vcs used by the package": the Vcs-<type> field (Policy 5.6.26)
        read_row!("control::Source", "vcs", |d| csource(d)?.vcs(), [
            ("Source: foo\nVcs-Browser: https://example.com/b\nVcs-Git: https://example.com/foo.git\n", "Some(Git { repo_url: \"https://example.com/foo.git\", branch: None, subpath: None })"),
            ("Source: foo\nVcs-Git: https://example.com/foo.git -b debian/sid\n", "Some(Git { repo_url: \"https://example.com/foo.git\", branch: Some(\"debian/sid\"), subpath: None })"),
            ("Source: foo\nVcs-Svn: svn://example.com/foo/trunk\n", "Some(Svn { url: \"svn://example.com/foo/trunk\" })"),
            ("Source: foo\nVcs-Hg: https://example.com/hg\n", "Some(Hg { repo_url: \"https://example.com/hg\" })"),
            ("Source: foo\nVcs-Browser: https://example.com/b\n", "None"),
            ("Source: foo\nVcs-Bzr: https://example.com/bzr/trunk\n", "Some(Bzr { repo_url: \"https://example.com/bzr/trunk\", subpath: None })"),
            ("Source: foo\nVcs-Cvs: :pserver:anonymous@example.com:/cvs/webwml webwml\n", "Some(Cvs { root: \":pserver:anonymous@example.com:/cvs/webwml\", module: Some(\"webwml\") })"),
            ("Source: foo\nVcs-Cvs: :pserver:anonymous@example.com:/cvs\nVcs-Browser: https://example.com/b\n", "Some(Cvs { root: \":pserver:anonymous@example.com:/cvs\", module: None })"),
        ]),
        // Control::add_source / add_binary: "a control file's source paragraph and binary paragraphs are found by their Source
        // and Package fields" - also the ones just added, and what is set through the returned view lands in the file
        read_row!("control::Control", "add_source", |d| { let mut c = control(d)?; { let mut sp = c.add_source("foo"); sp.set_section(Some("net")); } (c.to_string(), c.source().and_then(|x| x.name()), c.binaries().map(|b| b.name()).collect::<Vec<_>>()) }, [
            ("", "(\"Source: foo\\nSection: net\\n\", Some(\"foo\"), [])"),
            ("Package: p\n", "(\"Package: p\\n\\nSource: foo\\nSection: net\\n\", Some(\"foo\"), [Some(\"p\")])"),
            ("# c\nPackage: p\nArchitecture: any", "(\"# c\\nPackage: p\\nArchitecture: any\\n\\nSource: foo\\nSection: net\\n\", Some(\"foo\"), [Some(\"p\")])"),
        ]),
        read_row!("control::Control", "add_binary", |d| { let mut c = control(d)?; { let mut bp = c.add_binary("bar"); bp.set_section(Some("net")); } (c.to_string(), c.source().and_then(|x| x.name()), c.binaries().map(|b| b.name()).collect::<Vec<_>>()) }, [
            ("", "(\"Package: bar\\nSection: net\\n\", None, [Some(\"bar\")])"),
            ("Source: s\n", "(\"Source: s\\n\\nPackage: bar\\nSection: net\\n\", Some(\"s\"), [Some(\"bar\")])"),
            ("Source: s\n\nPackage: p\n# t", "(\"Source: s\\n\\nPackage: p\\n# t\\n\\nPackage: bar\\nSection: net\\n\", Some(\"s\"), [Some(\"p\"), Some(\"bar\")])"),
        ]),
        // -- control::Binary readers
        read_row!("control::Binary", "essential", |d| cbinary(d)?.essential(), [
            ("Package: a\nEssential: yes\n", "true"), ("Package: a\nEssential: no\n", "false"), ("Package: a\n", "false")]),
        read_row!("control::Binary", "multi_arch", |d| cbinary(d)?.multi_arch(), [
            ("Package: a\nMulti-Arch: same\n", "Some(Same)"), ("Package: a\nMulti-Arch: foreign\n", "Some(Foreign)"),
            ("Package: a\nMulti-Arch: allowed\n", "Some(Allowed)"), ("Package: a\nMulti-Arch: no\n", "Some(No)"), ("Package: a\n", "None")]),
        read_row!("control::Binary", "description", |d| cbinary(d)?.description(), [
            ("Package: a\nDescription: short\n", "Some(\"short\")"),
            ("Package: a\nDescription: short\n long 1\n .\n long 2\n", "Some(\"short\\nlong 1\\n.\\nlong 2\")"),
            ("Package: a\n", "None")]),
        read_row!("control::Binary", "depends", |d| cbinary(d)?.depends().map(|r| r.entries().map(|e| e.to_string()).collect::<Vec<_>>()), [
            ("Package: a\nDepends: ${shlibs:Depends}, libc6 (>= 2.36), a | b\n", "Some([\"libc6 (>= 2.36)\", \"a | b\"])"),
            ("Package: a\nDepends: a,\n b [amd64]\n", "Some([\"a\", \"b [amd64]\"])"),
            ("Package: a\n", "None")]),
        read_row!("control::Binary", "homepage", |d| cbinary(d)?.homepage().map(|u| u.to_string()), [
            ("Package: a\nHomepage: https://example.com/hello\n", "Some(\"https://example.com/hello\")"), ("Package: a\n", "None")]),
    ]
}

fn asource(doc: &str) -> Result<apt::Source, String> {
    doc.parse::<apt::Source>().map_err(|e| e.to_string().replace('\n', "; "))
}
fn apackage(doc: &str) -> Result<apt::Package, String> {
    doc.parse::<apt::Package>().map_err(|e| e.to_string().replace('\n', "; "))
}
fn arelease(doc: &str) -> Result<apt::Release, String> {
    doc.parse::<apt::Release>().map_err(|e| e.to_string().replace('\n', "; "))
}

fn read_apt() -> Vec<ReadRow> {
    vec![
        // -- apt::Source: checksum triples, one per line, the first line of the field is empty
        read_row!("apt::Source", "files", |d| asource(d)?.files(), [
            ("Package: foo\nFiles:\n d41d8cd9 1234 foo_1.0.dsc\n 900150983c 5 foo_1.0.tar.xz\n",
             "[Md5Checksum { md5sum: \"d41d8cd9\", size: 1234, filename: \"foo_1.0.dsc\" }, Md5Checksum { md5sum: \"900150983c\", size: 5, filename: \"foo_1.0.tar.xz\" }]"),
            ("Package: foo\nFiles: d41d8cd9 1234 foo_1.0.dsc\n", "[Md5Checksum { md5sum: \"d41d8cd9\", size: 1234, filename: \"foo_1.0.dsc\" }]"),
            ("Package: foo\n", "[]"),
        ]),
        read_row!("apt::Source", "checksums_sha1", |d| asource(d)?.checksums_sha1(), [
            ("Package: foo\nChecksums-Sha1:\n da39a3ee 1234 foo_1.0.dsc\n a9993e36 5 foo_1.0.tar.xz\n",
             "[Sha1Checksum { sha1: \"da39a3ee\", size: 1234, filename: \"foo_1.0.dsc\" }, Sha1Checksum { sha1: \"a9993e36\", size: 5, filename: \"foo_1.0.tar.xz\" }]"),
            ("Package: foo\n", "[]"),
        ]),
        read_row!("apt::Source", "checksums_sha256", |d| asource(d)?.checksums_sha256(), [
            ("Package: foo\nChecksums-Sha256:\n e3b0c442 1234 foo_1.0.dsc\n ba7816bf 5 foo_1.0.tar.xz\n",
             "[Sha256Checksum { sha256: \"e3b0c442\", size: 1234, filename: \"foo_1.0.dsc\" }, Sha256Checksum { sha256: \"ba7816bf\", size: 5, filename: \"foo_1.0.tar.xz\" }]"),
            ("Package: foo\n", "[]"),
        ]),
        read_row!("apt::Source", "checksums_sha512", |d| asource(d)?.checksums_sha512(), [
            ("Package: foo\nChecksums-Sha512:\n cf83e135 1234 foo_1.0.dsc\n ddaf35a1 5 foo_1.0.tar.xz\n",
             "[Sha512Checksum { sha512: \"cf83e135\", size: 1234, filename: \"foo_1.0.dsc\" }, Sha512Checksum { sha512: \"ddaf35a1\", size: 5, filename: \"foo_1.0.tar.xz\" }]"),
            ("Package: foo\n", "[]"),
        ]),
        read_row!("apt::Source", "uploaders", |d| asource(d)?.uploaders(), [
            ("Package: foo\nUploaders: A <a@example.com>, B <b@example.com>\n", "Some([\"A <a@example.com>\", \"B <b@example.com>\"])"),
            ("Package: foo\nUploaders: A <a@example.com>,\n B <b@example.com>\n", "Some([\"A <a@example.com>\", \"B <b@example.com>\"])"),
            ("Package: foo\nUploaders: A <a@example.com>,\n B <b@example.com>,\n", "Some([\"A <a@example.com>\", \"B <b@example.com>\"])"),
            ("Package: foo\nUploaders: A <a@example.com>,B <b@example.com>\n", "Some([\"A <a@example.com>\", \"B <b@example.com>\"])"),
            ("Package: foo\n", "None"),
        ]),
        read_row!("apt::Source", "binary", |d| asource(d)?.binary().map(|r| r.entries().map(|e| e.to_string()).collect::<Vec<_>>()), [
            ("Package: foo\nBinary: foo, libfoo1, libfoo-dev\n", "Some([\"foo\", \"libfoo1\", \"libfoo-dev\"])"),
            ("Package: foo\nBinary: foo,\n libfoo1\n", "Some([\"foo\", \"libfoo1\"])"),
            ("Package: foo\n", "None"),
        ]),
        read_row!("apt::Source", "version / priority / build_depends", |d| {
            let s = asource(d)?;
            (s.version().map(|v| v.to_string()), s.priority(), s.build_depends().map(|r| r.entries().map(|e| e.to_string()).collect::<Vec<_>>()))
        }, [
            ("Package: foo\nVersion: 1:2.0-3\nPriority: optional\nBuild-Depends: debhelper-compat (= 13), a | b\n", "(Some(\"1:2.0-3\"), Some(Optional), Some([\"debhelper-compat (= 13)\", \"a | b\"]))"),
            ("Package: foo\n", "(None, None, None)"),
        ]),
        // -- apt::Package
        read_row!("apt::Package", "installed_size / size", |d| { let p = apackage(d)?; (p.installed_size(), p.size()) }, [
            ("Package: foo\nInstalled-Size: 123\nSize: 45678\n", "(Some(123), Some(45678))"),
            ("Package: foo\n", "(None, None)"),
        ]),
        read_row!("apt::Package", "tags(\"Tag\")", |d| apackage(d)?.tags("Tag"), [
            ("Package: foo\nTag: role::program, uitoolkit::gtk\n", "Some([\"role::program\", \"uitoolkit::gtk\"])"),
            ("Package: foo\nTag: role::program,\n uitoolkit::gtk\n", "Some([\"role::program\", \"uitoolkit::gtk\"])"),
            ("Package: foo\nTag: role::program,\n uitoolkit::gtk,\n", "Some([\"role::program\", \"uitoolkit::gtk\"])"),
            ("Package: foo\nTag: role::program,uitoolkit::gtk\n", "Some([\"role::program\", \"uitoolkit::gtk\"])"),
            ("Package: foo\n", "None"),
        ]),
        read_row!("apt::Package", "depends", |d| apackage(d)?.depends().map(|r| r.entries().map(|e| e.to_string()).collect::<Vec<_>>()), [
            ("Package: foo\nDepends: libc6 (>= 2.36), a | b, c:any\n", "Some([\"libc6 (>= 2.36)\", \"a | b\", \"c:any\"])"),
            ("Package: foo\n", "None"),
        ]),
        read_row!("apt::Package", "multi_arch / priority / version", |d| { let p = apackage(d)?; (p.multi_arch(), p.priority(), p.version().map(|v| v.to_string())) }, [
            ("Package: foo\nMulti-Arch: foreign\nPriority: important\nVersion: 1.0-1+b2\n", "(Some(Foreign), Some(Important), Some(\"1.0-1+b2\"))"),
            ("Package: foo\n", "(None, None, None)"),
        ]),
        read_row!("apt::Package", "description / homepage", |d| { let p = apackage(d)?; (p.description(), p.homepage().map(|u| u.to_string())) }, [
            ("Package: foo\nDescription: short\n long 1\n .\n long 2\nHomepage: https://example.com/x\n", "(Some(\"short\\nlong 1\\n.\\nlong 2\"), Some(\"https://example.com/x\"))"),
            ("Package: foo\n", "(None, None)"),
        ]),
        // -- apt::Release
        read_row!("apt::Release", "architectures / components", |d| { let r = arelease(d)?; (r.architectures(), r.components()) }, [
            ("Origin: Debian\nArchitectures: all amd64 arm64\nComponents: main contrib non-free-firmware\n", "(Some([\"all\", \"amd64\", \"arm64\"]), Some([\"main\", \"contrib\", \"non-free-firmware\"]))"),
            ("Origin: Debian\nArchitectures: amd64\n arm64\nComponents: main\n", "(Some([\"amd64\", \"arm64\"]), Some([\"main\"]))"),
            ("Origin: Debian\n", "(None, None)"),
        ]),
        read_row!("apt::Release", "acquire_by_hash / no_support_for_architecture_all", |d| { let r = arelease(d)?; (r.acquire_by_hash(), r.no_support_for_architecture_all()) }, [
            ("Origin: Debian\nAcquire-By-Hash: yes\n", "(true, false)"),
            ("Origin: Debian\nAcquire-By-Hash: no\n", "(false, false)"),
            ("Origin: Debian\n", "(false, false)"),
        ]),
        // Date / Valid-Until: RFC 2822 date; archive Release files write the zone as "UTC"
        read_row!("apt::Release", "date / valid_until", |d| { let r = arelease(d)?; (r.date().map(|x| x.to_rfc3339()), r.valid_until().map(|x| x.to_rfc3339())) }, [
            ("Origin: Debian\nDate: Sat, 09 Mar 2024 10:11:12 +0000\nValid-Until: Sat, 16 Mar 2024 10:11:12 +0000\n", "(Some(\"2024-03-09T10:11:12+00:00\"), Some(\"2024-03-16T10:11:12+00:00\"))"),
            ("Origin: Debian\n", "(None, None)"),
            ("Origin: Debian\nDate: Sat, 09 Mar 2024 10:11:12 UTC\n", "(Some(\"2024-03-09T10:11:12+00:00\"), None)"),
            ("Origin: Debian\nValid-Until: Sat, 16 Mar 2024 10:11:12 UTC\n", "(None, Some(\"2024-03-16T10:11:12+00:00\"))"),
        ]),
        read_row!("apt::Release", "changelogs", |d| arelease(d)?.changelogs(), [
            ("Origin: Debian\nChangelogs: https://metadata.ftp-master.debian.org/changelogs/@CHANGEPATH@_changelog\n", "Some([\"https://metadata.ftp-master.debian.org/changelogs/@CHANGEPATH@_changelog\"])"),
            ("Origin: Debian\n", "None"),
        ]),
        read_row!("apt::Release", "checksums_md5", |d| arelease(d)?.checksums_md5(), [
            ("Origin: Debian\nMD5Sum:\n d41d8cd9          1234 main/binary-amd64/Packages\n 900150983c           5 main/binary-amd64/Packages.xz\n",
             "[Md5Checksum { md5sum: \"d41d8cd9\", size: 1234, filename: \"main/binary-amd64/Packages\" }, Md5Checksum { md5sum: \"900150983c\", size: 5, filename: \"main/binary-amd64/Packages.xz\" }]"),
            ("Origin: Debian\n", "[]"),
        ]),
        read_row!("apt::Release", "checksums_sha1", |d| arelease(d)?.checksums_sha1(), [
            ("Origin: Debian\nSHA1:\n da39a3ee          1234 main/binary-amd64/Packages\n a9993e36           5 main/source/Sources.xz\n",
             "[Sha1Checksum { sha1: \"da39a3ee\", size: 1234, filename: \"main/binary-amd64/Packages\" }, Sha1Checksum { sha1: \"a9993e36\", size: 5, filename: \"main/source/Sources.xz\" }]"),
            ("Origin: Debian\n", "[]"),
        ]),
        read_row!("apt::Release", "checksums_sha256", |d| arelease(d)?.checksums_sha256(), [
            ("Origin: Debian\nSHA256:\n e3b0c442          1234 main/binary-amd64/Packages\n ba7816bf           5 main/source/Sources.xz\n",
             "[Sha256Checksum { sha256: \"e3b0c442\", size: 1234, filename: \"main/binary-amd64/Packages\" }, Sha256Checksum { sha256: \"ba7816bf\", size: 5, filename: \"main/source/Sources.xz\" }]"),
            ("Origin: Debian\n", "[]"),
        ]),
        read_row!("apt::Release", "checksums_sha512", |d| arelease(d)?.checksums_sha512(), [
            ("Origin: Debian\nSHA512:\n cf83e135          1234 main/binary-amd64/Packages\n ddaf35a1           5 main/source/Sources.xz\n",
             "[Sha512Checksum { sha512: \"cf83e135\", size: 1234, filename: \"main/binary-amd64/Packages\" }, Sha512Checksum { sha512: \"ddaf35a1\", size: 5, filename: \"main/source/Sources.xz\" }]"),
            ("Origin: Debian\n", "[]"),
        ]),
    ]
}

fn changes(doc: &str) -> Result<Changes, String> {
    Changes::read(doc.as_bytes()).map_err(|e| e.to_string().replace('\n', "; "))
}
fn buildinfo(doc: &str) -> Result<Buildinfo, String> {
    doc.parse::<Buildinfo>().map_err(|e| e.to_string().replace('\n', "; "))
}

fn read_changes_buildinfo() -> Vec<ReadRow> {
    fn sorted(m: std::collections::HashMap<String, String>) -> Vec<(String, String)> {
        let mut v: Vec<_> = m.into_iter().collect();
        v.sort();
        v
    }
    vec![
        // -- the pool directory of the source package: pool/<area>/<first letter, or "lib" + the letter after it>/<source>
        read_row!("changes::Changes", "get_pool_path", |d| changes(d)?.get_pool_path(), [
            ("Format: 1.8\nSource: hello\nFiles:\n d41d8cd9 1 devel optional hello_1.dsc\n", "Some(\"pool/main/h/hello\")"),
            ("Format: 1.8\nSource: hello\nFiles:\n d41d8cd9 1 contrib/devel optional hello_1.dsc\n d41d8cd9 2 contrib/devel optional hello_1.tar.xz\n", "Some(\"pool/contrib/h/hello\")"),
            ("Format: 1.8\nSource: libfoo\nFiles:\n d41d8cd9 1 non-free/libs optional libfoo_1.dsc\n", "Some(\"pool/non-free/libf/libfoo\")"),
            ("Format: 1.8\nSource: lib\nFiles:\n d41d8cd9 1 libs optional lib_1.dsc\n", "Some(\"pool/main/lib/lib\")"),
            ("Format: 1.8\nSource: hello\n", "None"),
            ("Format: 1.8\nFiles:\n d41d8cd9 1 devel optional hello_1.dsc\n", "None"),
        ]),
        // -- changes::Changes (deb-changes(5)); every getter but format is getter-only
        read_row!("changes::Changes", "source / distribution / maintainer / changed_by", |d| { let c = changes(d)?; (c.source(), c.distribution(), c.maintainer(), c.changed_by()) }, [
            ("Format: 1.8\nSource: hello\nDistribution: unstable\nMaintainer: A <a@example.com>\nChanged-By: B <b@example.com>\n",
             "(Some(\"hello\"), Some(\"unstable\"), Some(\"A <a@example.com>\"), Some(\"B <b@example.com>\"))"),
            ("Format: 1.8\n", "(None, None, None, None)"),
        ]),
        // space-separated lists; Binary is a folded field
        read_row!("changes::Changes", "binary", |d| changes(d)?.binary(), [
            ("Format: 1.8\nBinary: hello hello-dbgsym\n", "Some([\"hello\", \"hello-dbgsym\"])"),
            ("Format: 1.8\nBinary: hello\n hello-dbgsym libhello1\n", "Some([\"hello\", \"hello-dbgsym\", \"libhello1\"])"),
            ("Format: 1.8\n", "None"),
        ]),
        read_row!("changes::Changes", "architecture", |d| changes(d)?.architecture(), [
            ("Format: 1.8\nArchitecture: source amd64 all\n", "Some([\"source\", \"amd64\", \"all\"])"),
            ("Format: 1.8\nArchitecture: all\n", "Some([\"all\"])"),
            ("Format: 1.8\n", "None"),
        ]),
        read_row!("changes::Changes", "version", |d| changes(d)?.version().map(|v| v.to_string()), [
            ("Format: 1.8\nVersion: 1:2.0-3\n", "Some(\"1:2.0-3\")"), ("Format: 1.8\n", "None")]),
        read_row!("changes::Changes", "urgency", |d| changes(d)?.urgency(), [
            ("Format: 1.8\nUrgency: low\n", "Some(Low)"), ("Format: 1.8\nUrgency: medium\n", "Some(Medium)"), ("Format: 1.8\nUrgency: high\n", "Some(High)"),
            ("Format: 1.8\nUrgency: emergency\n", "Some(Emergency)"), ("Format: 1.8\nUrgency: critical\n", "Some(Critical)"),
            ("Format: 1.8\nUrgency: HIGH\n", "Some(High)"), ("Format: 1.8\n", "None"),
            // Policy 5.6.17: the keyword may be followed by a commentary after a space
            ("Format: 1.8\nUrgency: high (security fix)\n", "Some(High)"),
        ]),
        read_row!("changes::Changes", "description", |d| changes(d)?.description(), [
            ("Format: 1.8\nDescription:\n hello - a greeting\n hello-dbgsym - debug symbols for hello\n", "Some(\"hello - a greeting\\nhello-dbgsym - debug symbols for hello\")"),
            ("Format: 1.8\n", "None"),
        ]),
        read_row!("changes::Changes", "checksums_sha1", |d| changes(d)?.checksums_sha1(), [
            ("Format: 1.8\nChecksums-Sha1:\n da39a3ee 1234 hello_1.0.dsc\n a9993e36 5 hello_1.0_amd64.deb\n",
             "Some([Sha1Checksum { sha1: \"da39a3ee\", size: 1234, filename: \"hello_1.0.dsc\" }, Sha1Checksum { sha1: \"a9993e36\", size: 5, filename: \"hello_1.0_amd64.deb\" }])"),
            ("Format: 1.8\n", "None"),
        ]),
        read_row!("changes::Changes", "checksums_sha256", |d| changes(d)?.checksums_sha256(), [
            ("Format: 1.8\nChecksums-Sha256:\n e3b0c442 1234 hello_1.0.dsc\n ba7816bf 5 hello_1.0_amd64.deb\n",
             "Some([Sha256Checksum { sha256: \"e3b0c442\", size: 1234, filename: \"hello_1.0.dsc\" }, Sha256Checksum { sha256: \"ba7816bf\", size: 5, filename: \"hello_1.0_amd64.deb\" }])"),
            ("Format: 1.8\n", "None"),
        ]),
        // Files: md5sum size section priority filename
        read_row!("changes::Changes", "files", |d| changes(d)?.files(), [
            ("Format: 1.8\nFiles:\n d41d8cd9 1234 devel optional hello_1.0.dsc\n 900150983c 5 contrib/libs extra hello_1.0_amd64.deb\n",
             "Some([File { md5sum: \"d41d8cd9\", size: 1234, section: \"devel\", priority: Optional, filename: \"hello_1.0.dsc\" }, File { md5sum: \"900150983c\", size: 5, section: \"contrib/libs\", priority: Extra, filename: \"hello_1.0_amd64.deb\" }])"),
            ("Format: 1.8\n", "None"),
        ]),
        // -- buildinfo::Buildinfo (deb-buildinfo(5)): Binary and Build-Tainted-By are folded space-separated lists
        read_row!("buildinfo::Buildinfo", "binaries", |d| buildinfo(d)?.binaries(), [
            ("Format: 1.0\nBinary: hello hello-dbgsym\n", "Some([\"hello\", \"hello-dbgsym\"])"),
            ("Format: 1.0\nBinary: hello\n", "Some([\"hello\"])"),
            ("Format: 1.0\n", "None"),
            ("Format: 1.0\nBinary: hello hello-dbgsym\n libhello1\n", "Some([\"hello\", \"hello-dbgsym\", \"libhello1\"])"),
        ]),
        read_row!("buildinfo::Buildinfo", "build_tainted_by", |d| buildinfo(d)?.build_tainted_by(), [
            ("Format: 1.0\nBuild-Tainted-By: merged-usr-via-aliased-dirs usr-local-has-programs\n", "Some([\"merged-usr-via-aliased-dirs\", \"usr-local-has-programs\"])"),
            ("Format: 1.0\n", "None"),
            ("Format: 1.0\nBuild-Tainted-By:\n merged-usr-via-aliased-dirs\n usr-local-has-programs\n", "Some([\"merged-usr-via-aliased-dirs\", \"usr-local-has-programs\"])"),
        ]),
        // Environment: one NAME="value" per line, first line empty; the value is reported as written
        read_row!("buildinfo::Buildinfo", "environment", |d| buildinfo(d)?.environment().map(sorted), [
            ("Format: 1.0\nEnvironment:\n DEB_BUILD_OPTIONS=\"parallel=4\"\n LANG=\"C.UTF-8\"\n", "Some([(\"DEB_BUILD_OPTIONS\", \"\\\"parallel=4\\\"\"), (\"LANG\", \"\\\"C.UTF-8\\\"\")])"),
            ("Format: 1.0\n", "None"),
        ]),
        read_row!("buildinfo::Buildinfo", "checksums_md5", |d| buildinfo(d)?.checksums_md5(), [
            ("Format: 1.0\nChecksums-Md5:\n d41d8cd9 1234 hello_1.0_amd64.deb\n 900150983c 5 hello-dbgsym_1.0_amd64.deb\n",
             "[Md5Checksum { md5sum: \"d41d8cd9\", size: 1234, filename: \"hello_1.0_amd64.deb\" }, Md5Checksum { md5sum: \"900150983c\", size: 5, filename: \"hello-dbgsym_1.0_amd64.deb\" }]"),
            ("Format: 1.0\n", "[]"),
        ]),
        read_row!("buildinfo::Buildinfo", "checksums_sha1", |d| buildinfo(d)?.checksums_sha1(), [
            ("Format: 1.0\nChecksums-Sha1:\n da39a3ee 1234 hello_1.0_amd64.deb\n", "[Sha1Checksum { sha1: \"da39a3ee\", size: 1234, filename: \"hello_1.0_amd64.deb\" }]"),
            ("Format: 1.0\n", "[]"),
        ]),
        read_row!("buildinfo::Buildinfo", "checksums_sha256", |d| buildinfo(d)?.checksums_sha256(), [
            ("Format: 1.0\nChecksums-Sha256:\n e3b0c442 1234 hello_1.0_amd64.deb\n", "[Sha256Checksum { sha256: \"e3b0c442\", size: 1234, filename: \"hello_1.0_amd64.deb\" }]"),
            ("Format: 1.0\n", "[]"),
        ]),
        read_row!("buildinfo::Buildinfo", "installed_build_depends", |d| buildinfo(d)?.installed_build_depends().map(|r| r.entries().map(|e| e.to_string()).collect::<Vec<_>>()), [
            ("Format: 1.0\nInstalled-Build-Depends:\n autoconf (= 2.71-3),\n automake (= 1:1.16.5-1.3),\n base-files (= 12.4+deb12u5)\n", "Some([\"autoconf (= 2.71-3)\", \"automake (= 1:1.16.5-1.3)\", \"base-files (= 12.4+deb12u5)\"])"),
            ("Format: 1.0\n", "None"),
        ]),
        read_row!("buildinfo::Buildinfo", "version / source / architecture", |d| { let b = buildinfo(d)?; (b.version().map(|v| v.to_string()), b.source(), b.architecture()) }, [
            ("Format: 1.0\nSource: hello\nVersion: 1:2.0-3\nArchitecture: amd64 source\n", "(Some(\"1:2.0-3\"), Some(\"hello\"), Some(\"amd64 source\"))"),
            ("Format: 1.0\n", "(None, None, None)"),
        ]),
    ]
}
fn read_copyright() -> Vec<ReadRow> {
    fn files1(doc: &str) -> Result<FilesParagraph, String> {
        copyright(doc)?.iter_files().next().ok_or_else(|| "no files paragraph".to_string())
    }
    fn header(doc: &str) -> Result<Header, String> {
        copyright(doc)?.header().ok_or_else(|| "no header paragraph".to_string())
    }
    vec![
        read_row!("copyright::Header", "format_string", |d| header(d)?.format_string(), [
            ("Format: https://www.debian.org/doc/packaging-manuals/copyright-format/1.0/\nUpstream-Name: x\n", "Some(\"https://www.debian.org/doc/packaging-manuals/copyright-format/1.0/\")"),
        ]),
        read_row!("copyright::Header", "upstream_name / upstream_contact / source", |d| { let h = header(d)?; (h.upstream_name(), h.upstream_contact(), h.source()) }, [
            ("Format: https://www.debian.org/doc/packaging-manuals/copyright-format/1.0/\nUpstream-Name: hello\nUpstream-Contact: A <a@example.com>\nSource: https://example.com/hello\n\nFiles: *\nCopyright: c\nLicense: MIT\n",
             "(Some(\"hello\"), Some(\"A <a@example.com>\"), Some(\"https://example.com/hello\"))"),
            ("Format: https://www.debian.org/doc/packaging-manuals/copyright-format/1.0/\n\nFiles: *\nCopyright: c\nLicense: MIT\nSource: not-the-header\n", "(None, None, None)"),
        ]),
        // Files-Excluded has the syntax of Files: a whitespace-separated list of patterns (uscan(1), mk-origtargz)
        read_row!("copyright::Header", "files_excluded", |d| header(d)?.files_excluded(), [
            ("Format: https://www.debian.org/doc/packaging-manuals/copyright-format/1.0/\nFiles-Excluded: vendor/*\n", "Some([\"vendor/*\"])"),
            ("Format: https://www.debian.org/doc/packaging-manuals/copyright-format/1.0/\nFiles-Excluded:\n vendor/*\n *.min.js\n", "Some([\"vendor/*\", \"*.min.js\"])"),
            ("Format: https://www.debian.org/doc/packaging-manuals/copyright-format/1.0/\n", "None"),
        ]),
        // -- classification of the paragraphs
        read_row!("copyright::Copyright", "iter_files().files()", |d| copyright(d)?.iter_files().map(|f| f.files()).collect::<Vec<_>>(), [
            ("Format: https://www.debian.org/doc/packaging-manuals/copyright-format/1.0/\n\nFiles: *\nCopyright: c\nLicense: MIT\n\nLicense: MIT\n text\n\nFiles: debian/*\nCopyright: d\nLicense: MIT\n",
             "[[\"*\"], [\"debian/*\"]]"),
            ("Format: https://www.debian.org/doc/packaging-manuals/copyright-format/1.0/\n\nLicense: MIT\n text\n", "[]"),
        ]),
        // stand-alone license paragraphs; the header paragraph may itself carry License and Copyright fields (DEP-5)
        read_row!("copyright::Copyright", "iter_licenses().name()", |d| copyright(d)?.iter_licenses().map(|l| l.name()).collect::<Vec<_>>(), [
            ("Format: https://www.debian.org/doc/packaging-manuals/copyright-format/1.0/\n\nFiles: *\nCopyright: c\nLicense: MIT\n\nLicense: MIT\n text m\n\nFiles: debian/*\nCopyright: d\nLicense: GPL-2+\n\nLicense: GPL-2+\n text g\n",
             "[Some(\"MIT\"), Some(\"GPL-2+\")]"),
            ("Format: https://www.debian.org/doc/packaging-manuals/copyright-format/1.0/\n\nFiles: *\nCopyright: c\nLicense: MIT\n", "[]"),
        ]),
        // -- FilesParagraph readers
        read_row!("copyright::FilesParagraph", "files", |d| files1(d)?.files(), [
            ("Format: https://www.debian.org/doc/packaging-manuals/copyright-format/1.0/\n\nFiles: *\nCopyright: c\nLicense: MIT\n", "[\"*\"]"),
            ("Format: https://www.debian.org/doc/packaging-manuals/copyright-format/1.0/\n\nFiles: src/*.c  src/*.h\n debian/*\nCopyright: c\nLicense: MIT\n", "[\"src/*.c\", \"src/*.h\", \"debian/*\"]"),
            ("Format: https://www.debian.org/doc/packaging-manuals/copyright-format/1.0/\n\nFiles:\n a\n b\nCopyright: c\nLicense: MIT\n", "[\"a\", \"b\"]"),
        ]),
        // one holder per line
        read_row!("copyright::FilesParagraph", "copyright", |d| files1(d)?.copyright(), [
            ("Format: https://www.debian.org/doc/packaging-manuals/copyright-format/1.0/\n\nFiles: *\nCopyright: 2020 A <a@example.com>\nLicense: MIT\n", "[\"2020 A <a@example.com>\"]"),
            ("Format: https://www.debian.org/doc/packaging-manuals/copyright-format/1.0/\n\nFiles: *\nCopyright: 2020 A\n 2021-2023 B\nLicense: MIT\n", "[\"2020 A\", \"2021-2023 B\"]"),
            ("Format: https://www.debian.org/doc/packaging-manuals/copyright-format/1.0/\n\nFiles: *\nCopyright:\n 2020 A\n 2021-2023 B\nLicense: MIT\n", "[\"2020 A\", \"2021-2023 B\"]"),
        ]),
        // first line: short name; remaining lines: text
        read_row!("copyright::FilesParagraph", "license", |d| files1(d)?.license(), [
            ("Format: https://www.debian.org/doc/packaging-manuals/copyright-format/1.0/\n\nFiles: *\nCopyright: c\nLicense: GPL-2+\n", "Some(Name(\"GPL-2+\"))"),
            ("Format: https://www.debian.org/doc/packaging-manuals/copyright-format/1.0/\n\nFiles: *\nCopyright: c\nLicense: Expat\n Permission is hereby granted\n .\n free of charge\n", "Some(Named(\"Expat\", \"Permission is hereby granted\\n.\\nfree of charge\"))"),
            ("Format: https://www.debian.org/doc/packaging-manuals/copyright-format/1.0/\n\nFiles: *\nCopyright: c\nLicense: GPL-2+ or Expat\n", "Some(Name(\"GPL-2+ or Expat\"))"),
            ("Format: https://www.debian.org/doc/packaging-manuals/copyright-format/1.0/\n\nFiles: *\nCopyright: c\n", "None"),
        ]),
        read_row!("copyright::FilesParagraph", "comment", |d| files1(d)?.comment(), [
            ("Format: https://www.debian.org/doc/packaging-manuals/copyright-format/1.0/\n\nFiles: *\nCopyright: c\nLicense: MIT\nComment: line 1\n line 2\n", "Some(\"line 1\\nline 2\")"),
            ("Format: https://www.debian.org/doc/packaging-manuals/copyright-format/1.0/\n\nFiles: *\nCopyright: c\nLicense: MIT\n", "None"),
        ]),
        // -- LicenseParagraph readers (getter-only)
        read_row!("copyright::LicenseParagraph", "name / text / comment", |d| copyright(d)?.iter_licenses().map(|l| (l.name(), l.text(), l.comment())).collect::<Vec<_>>(), [
            ("Format: https://www.debian.org/doc/packaging-manuals/copyright-format/1.0/\n\nLicense: GPL-3+\n This program is free software\n .\n second paragraph\nComment: see /usr/share/common-licenses\n",
             "[(Some(\"GPL-3+\"), Some(\"This program is free software\\n.\\nsecond paragraph\"), Some(\"see /usr/share/common-licenses\"))]"),
            ("Format: https://www.debian.org/doc/packaging-manuals/copyright-format/1.0/\n\nLicense: MIT\n text\n", "[(Some(\"MIT\"), Some(\"text\"), None)]"),
            // a paragraph that only names the license
            ("Format: https://www.debian.org/doc/packaging-manuals/copyright-format/1.0/\n\nLicense: GPL-3+\n", "[(Some(\"GPL-3+\"), None, None)]"),
        ]),
    ]
}

fn patch(doc: &str) -> Result<PatchHeader, String> {
    PatchHeader::from_str(doc).map_err(|e| e.to_string().replace('\n', "; "))
}

fn read_dep3() -> Vec<ReadRow> {
    vec![
        // Origin: [<category>, ]<url or commit:id>
        read_row!("dep3::PatchHeader", "origin", |d| patch(d)?.origin(), [
            ("Description: x\nOrigin: upstream, commit:abc123\n", "Some((Some(Upstream), Commit(\"abc123\")))"),
            ("Description: x\nOrigin: backport, https://example.com/c/1\n", "Some((Some(Backport), Other(\"https://example.com/c/1\")))"),
            ("Description: x\nOrigin: vendor, https://bugs.debian.org/1\n", "Some((Some(Vendor), Other(\"https://bugs.debian.org/1\")))"),
            ("Description: x\nOrigin: other, https://example.com/p\n", "Some((Some(Other), Other(\"https://example.com/p\")))"),
            ("Description: x\nOrigin: https://example.com/p\n", "Some((None, Other(\"https://example.com/p\")))"),
            ("Description: x\nOrigin: commit:abc123\n", "Some((None, Commit(\"abc123\")))"),
            ("Description: x\nOrigin: Ubuntu, https://launchpad.net/x\n", "Some((None, Other(\"Ubuntu, https://launchpad.net/x\")))"),
            ("Description: x\n", "None"),
        ]),
        // Forwarded: "no", "not-needed", anything else means forwarded
        read_row!("dep3::PatchHeader", "forwarded", |d| patch(d)?.forwarded(), [
            ("Description: x\nForwarded: no\n", "Some(No)"),
            ("Description: x\nForwarded: not-needed\n", "Some(NotNeeded)"),
            ("Description: x\nForwarded: https://lists.example.com/1.html\n", "Some(Yes(\"https://lists.example.com/1.html\"))"),
            ("Description: x\nForwarded: yes\n", "Some(Yes(\"yes\"))"),
            ("Description: x\n", "None"),
        ]),
        read_row!("dep3::PatchHeader", "applied_upstream", |d| patch(d)?.applied_upstream(), [
            ("Description: x\nApplied-Upstream: commit:abc123\n", "Some(Commit(\"abc123\"))"),
            ("Description: x\nApplied-Upstream: 1.2, https://example.com/c/1\n", "Some(Other(\"1.2, https://example.com/c/1\"))"),
            ("Description: x\n", "None"),
        ]),
        // Author or From
        read_row!("dep3::PatchHeader", "author", |d| patch(d)?.author(), [
            ("Description: x\nAuthor: A <a@example.com>\n", "Some(\"A <a@example.com>\")"),
            ("From: B <b@example.com>\nSubject: x\n", "Some(\"B <b@example.com>\")"),
            ("Description: x\n", "None"),
        ]),
        read_row!("dep3::PatchHeader", "last_update", |d| patch(d)?.last_update(), [
            ("Description: x\nLast-Update: 2006-12-21\n", "Some(2006-12-21)"),
            ("Description: x\n", "None"),
        ]),
        // Bug (upstream) and Bug-<Vendor>, each possibly several times
        read_row!("dep3::PatchHeader", "bugs", |d| patch(d)?.bugs().collect::<Vec<_>>(), [
            ("Description: x\nBug: https://bugzilla.example.com/1\nBug-Debian: https://bugs.debian.org/2\nBug-Ubuntu: https://launchpad.net/bugs/3\nBug-Debian: https://bugs.debian.org/4\n",
             "[(None, \"https://bugzilla.example.com/1\"), (Some(\"Debian\"), \"https://bugs.debian.org/2\"), (Some(\"Ubuntu\"), \"https://launchpad.net/bugs/3\"), (Some(\"Debian\"), \"https://bugs.debian.org/4\")]"),
            ("Description: x\n", "[]"),
        ]),
        read_row!("dep3::PatchHeader", "vendor_bugs(\"Debian\")", |d| patch(d)?.vendor_bugs("Debian").collect::<Vec<_>>(), [
            ("Description: x\nBug: https://bugzilla.example.com/1\nBug-Debian: https://bugs.debian.org/2\nBug-Ubuntu: https://launchpad.net/bugs/3\nBug-Debian: https://bugs.debian.org/4\n",
             "[\"https://bugs.debian.org/2\", \"https://bugs.debian.org/4\"]"),
            ("Description: x\nBug: https://bugzilla.example.com/1\n", "[]"),
        ]),
        // Description or Subject: first line is the short description, the rest the long one
        read_row!("dep3::PatchHeader", "description / long_description", |d| { let h = patch(d)?; (h.description(), h.long_description()) }, [
            ("Description: Fix the frobnicator\n", "(Some(\"Fix the frobnicator\"), Some(\"\"))"),
            ("Description: Use FHS paths\n Upstream is not interested.\n .\n We keep it.\nAuthor: A\n", "(Some(\"Use FHS paths\"), Some(\"Upstream is not interested.\\n.\\nWe keep it.\"))"),
            ("From: A <a@example.com>\nSubject: Fix regex problems\n more text\n", "(Some(\"Fix regex problems\"), Some(\"more text\"))"),
            ("Author: A\n", "(None, None)"),
        ]),
        // DEP-3 spells the field "Reviewed-by" (alternative "Acked-by"); it may be repeated
        read_row!("dep3::PatchHeader", "reviewed_by", |d| patch(d)?.reviewed_by(), [
            ("Description: x\nReviewed-By: A <a@example.com>\nReviewed-By: B <b@example.com>\n", "[\"A <a@example.com>\", \"B <b@example.com>\"]"),
            ("Description: x\n", "[]"),
            ("Description: x\nReviewed-by: A <a@example.com>\n", "[\"A <a@example.com>\"]"),
        ]),
    ]
}
