//! C15 — typed accessors: what a setter writes, its getter reads; nothing else moves (DESIGN 3/C15).
//!
//! The accessor table lives in c15_rows.rs (one `Row` per getter/setter pair, one `ReadRow` per
//! getter-on-raw-text reading).  This file is the engine: prior states, oracle, sequences.

use crate::core::*;
use deb822_lossless::Deb822;
use serde::{Deserialize, Serialize};
use serde_json::{json, Value};
use std::str::FromStr;

/// What one setter call did.
pub struct Obs {
    /// the whole document, printed after the setter ran
    pub after: String,
    /// Debug rendering of what the getter returns on the live object after the setter
    pub got: String,
    /// Debug rendering of the value that was set, in the getter's return type (what the getter must return)
    pub want: String,
}

pub struct Row {
    /// e.g. "control::Source"
    pub view: &'static str,
    /// accessor name, e.g. "standards_version"
    pub accessor: &'static str,
    /// the Debian field name the accessor is documented for (from Policy / man pages / the doc comment)
    pub field: &'static str,
    /// minimal paragraph text for the view to exist, e.g. "Source: foo\n"
    pub base: &'static str,
    /// a paragraph of another kind that may stand next to it in the same document (None: single-paragraph type)
    pub sibling: Option<&'static str>,
    /// a valid raw value of the field, different from every value in the menu
    pub prior_raw: &'static str,
    /// number of values in the menu
    pub n_values: usize,
    /// does the setter accept "clear" (Option::None / empty)?  Then value index n_values means clear.
    pub has_clear: bool,
    /// prior states (indices of `prior_doc`) that cannot exist for this view, e.g. a copyright header
    /// paragraph is by definition the first paragraph of a text that starts with "Format:"
    pub skip_priors: &'static [usize],
    /// build the view over `doc_text`, call the setter with value `vi`, report
    pub run: fn(doc_text: &str, vi: usize) -> Result<Obs, String>,
    /// build the view over `doc_text` and return the Debug rendering of the getter's result
    pub get: fn(doc_text: &str) -> Result<String, String>,
    /// the same on a LIVE view kept between calls (document + view, type-erased): build it, ...
    pub open_live: fn(doc_text: &str) -> Result<Box<dyn std::any::Any>, String>,
    /// ... call the setter with value `vi` (returns the Debug rendering the getter must now give), ...
    pub apply_live: fn(view: &mut dyn std::any::Any, vi: usize) -> Result<String, String>,
    /// ... call the getter, ...
    pub get_live: fn(view: &mut dyn std::any::Any) -> Result<String, String>,
    /// ... print the document.
    pub print_live: fn(view: &mut dyn std::any::Any) -> Result<String, String>,
}

/// Recover the (document, view) pair behind a type-erased live view; `_open` only names the types.
pub fn downcast_view<D: 'static, V: 'static>(_open: fn(&str) -> Result<(D, V), String>, any: &mut dyn std::any::Any) -> Option<&mut (D, V)> {
    any.downcast_mut::<(D, V)>()
}

pub struct ReadRow {
    pub view: &'static str,
    pub accessor: &'static str,
    /// (document text, Debug rendering of the documented reading)
    pub cases: &'static [(&'static str, &'static str)],
    pub get: fn(doc_text: &str) -> Result<String, String>,
}

#[derive(Clone, Serialize, Deserialize, PartialEq, Debug)]
pub enum C15Case {
    /// row key "view.accessor", prior state index, value index
    Set { row: String, prior: usize, vi: usize },
    /// two setters in sequence on the same paragraph (both with value 0), starting from the base paragraph
    Seq { first: String, second: String },
    /// getter on raw text
    Read { row: String, case: usize },
    /// setters called one after the other on ONE live view (no re-reading in between): (row key, value index) steps,
    /// value index n_values = clear; starting from the base paragraph
    Live { steps: Vec<(String, usize)> },
}

pub struct C15;

fn key(r: &Row) -> String {
    format!("{}.{}", r.view, r.accessor)
}
fn rkey(r: &ReadRow) -> String {
    format!("{}.{}", r.view, r.accessor)
}

pub const N_PRIORS: usize = 17;

/// Field names with a documented alias, per view (DEP-3: "Author or From", "Description or Subject").  A header may carry
/// either name - or both - for each of them, in any combination.
pub const ALIASES: &[(&str, &str, &str)] = &[("dep3::PatchHeader", "Author", "From"), ("dep3::PatchHeader", "Description", "Subject")];
pub fn alias_of(view: &str, field: &str) -> Option<&'static str> {
    ALIASES.iter().find(|(v, f, _)| *v == view && *f == field).map(|(_, _, a)| *a)
}
/// the base paragraph with its first field under its alias name (None when that field has no alias)
fn alt_base(r: &Row) -> Option<String> {
    let (name, rest) = r.base.split_once(':')?;
    alias_of(r.view, name).map(|a| format!("{}:{}", a, rest))
}

/// The prior documents for a row; None when the variant does not apply.
pub fn prior_doc(r: &Row, prior: usize) -> Option<String> {
    if r.skip_priors.contains(&prior) {
        return None;
    }
    let f = format!("{}: {}\n", r.field, r.prior_raw);
    // a multi-line raw value is written with continuation lines
    let f = f.trim_end_matches('\n').replace('\n', "\n ") + "\n";
    match prior {
        0 => Some(r.base.to_string()),
        1 => Some(format!("{}{}", r.base, f)),
        2 => Some(format!("{}# before\n{}# after\nX-Other: keep\n", r.base, f)),
        3 => Some(format!("X-First: 1\n{}{}X-Last: 2\n", r.base, f)),
        4 => r.sibling.map(|s| format!("{}X-Sib: s\n\n{}{}", s, r.base, f)),
        5 => r.sibling.map(|s| format!("{}\n# between\n\n{}X-Sib: s\n", r.base, s)),
        // the document does not end in a newline: another field last ...
        6 => Some(format!("{}{}X-Other: keep", r.base, f)),
        // ... and the accessor's own field last
        7 => Some(format!("{}{}", r.base, f).trim_end_matches('\n').to_string()),
        // alias names: the accessor's field under its alias name; under both names (either order)
        8 => alias_of(r.view, r.field).map(|a| format!("{}{}", r.base, f.replacen(r.field, a, 1))),
        9 => alias_of(r.view, r.field).map(|a| format!("{}{}{}", r.base, f, f.replacen(r.field, a, 1).replacen(r.prior_raw.split('\n').next().unwrap_or(""), "other", 1))),
        10 => alias_of(r.view, r.field).map(|a| format!("{}{}{}", r.base, f.replacen(r.field, a, 1).replacen(r.prior_raw.split('\n').next().unwrap_or(""), "other", 1), f)),
        // another field of the view under ITS alias name: with the accessor's field absent, present, present as alias
        11 => alt_base(r),
        12 => alt_base(r).map(|b| format!("{}{}", b, f)),
        13 => match (alt_base(r), alias_of(r.view, r.field)) {
            (Some(b), Some(a)) => Some(format!("{}{}", b, f.replacen(r.field, a, 1))),
            _ => None,
        },
        // the field present once in another accepted spelling: no blank after the colon, a tab, the value starting on a
        // continuation line (each with another field behind it)
        14 => Some(format!("{}{}X-Other: keep\n", r.base, f.replacen(": ", ":", 1))),
        15 => Some(format!("{}{}X-Other: keep\n", r.base, f.replacen(": ", ":\t", 1))),
        16 => Some(format!("{}{}X-Other: keep\n", r.base, f.replacen(": ", ":\n ", 1))),
        _ => None,
    }
}

type Content = Vec<Vec<(String, String)>>;
fn content(text: &str) -> Result<Content, String> {
    let d = Deb822::from_str(text).map_err(|e| e.to_string().replace('\n', "; "))?;
    Ok(d.paragraphs().map(|p| p.items().collect()).collect())
}
fn comments(text: &str) -> Vec<String> {
    text.lines().filter(|l| l.starts_with('#')).map(|l| l.to_string()).collect()
}

fn check_set(r: &Row, prior: usize, vi: usize) -> Vec<Viol> {
    let mut out = vec![];
    let Some(doc) = prior_doc(r, prior) else {
        return out;
    };
    let clear = vi == r.n_values;
    let ctx = |w: &str| format!("{} (field {}) on {:?} with value #{}{}: {}", key(r), r.field, doc, vi, if clear { " (clear)" } else { "" }, w);
    let obs = match (r.run)(&doc, vi) {
        Ok(o) => o,
        Err(e) => {
            out.push(viol("setter-applies", ctx(&format!("could not build the view / apply the setter: {}", e))));
            return out;
        }
    };
    let ctx = |w: &str| format!("{} (field {}) on {:?} with value #{}{} -> {:?}: {}", key(r), r.field, doc, vi, if clear { " (clear)" } else { "" }, obs.after, w);
    if obs.got != obs.want {
        out.push(viol("getter-returns-set-value", ctx(&format!("getter returns {} expected {}", obs.got, obs.want))));
    }
    match (r.get)(&obs.after) {
        Ok(g) => {
            if g != obs.want {
                out.push(viol("getter-after-reread", ctx(&format!("after re-reading the printed text the getter returns {} expected {}", g, obs.want))));
            }
        }
        Err(e) => out.push(viol("getter-after-reread", ctx(&format!("printed text does not re-read: {}", e)))),
    }
    let (before_c, after_c) = match (content(&doc), content(&obs.after)) {
        (Ok(b), Ok(a)) => (b, a),
        (_, Err(e)) => {
            out.push(viol("prints-well-formed", ctx(&e)));
            return out;
        }
        (Err(e), _) => {
            out.push(viol("harness", ctx(&format!("prior document does not parse: {}", e))));
            return out;
        }
    };
    // which paragraph holds the view: the one containing the base paragraph's first field
    let base_first = r.base.split(':').next().unwrap_or("").to_string();
    let base_alias = alias_of(r.view, &base_first);
    let pi = before_c.iter().position(|p| p.iter().any(|(k, _)| *k == base_first || Some(k.as_str()) == base_alias));
    let Some(pi) = pi else {
        out.push(viol("harness", ctx("view paragraph not found in the prior document")));
        return out;
    };
    if after_c.len() != before_c.len() {
        out.push(viol("nothing-else-moves", ctx(&format!("paragraph count {} -> {}", before_c.len(), after_c.len()))));
        return out;
    }
    // exactly one field of the documented name (none after clearing)
    // (a field with a documented alias: under either name; a header that carried both names before is not counted)
    let own_alias = alias_of(r.view, r.field);
    let is_own = |k: &String| k == r.field || Some(k.as_str()) == own_alias;
    let n_named = after_c[pi].iter().filter(|(k, _)| is_own(k)).count();
    let n_before = before_c[pi].iter().filter(|(k, _)| is_own(k)).count();
    let want_n = if clear { 0 } else { 1 };
    if n_named != want_n && n_before <= 1 {
        out.push(viol("stored-in-one-field-of-that-name", ctx(&format!("{} field(s) named {:?} (or its documented alias) in the paragraph, expected {}", n_named, r.field, want_n))));
    }
    // every other field, every other paragraph and every comment unchanged
    for (i, (b, a)) in before_c.iter().zip(after_c.iter()).enumerate() {
        let strip = |p: &Vec<(String, String)>| -> Vec<(String, String)> {
            if i == pi {
                p.iter().filter(|(k, _)| !is_own(k)).cloned().collect()
            } else {
                p.clone()
            }
        };
        if strip(b) != strip(a) {
            out.push(viol("nothing-else-moves", ctx(&format!("paragraph {}: other fields {:?} -> {:?}", i, strip(b), strip(a)))));
        }
    }
    // other accessors that read (another part of) the same field keep their reading
    for r2 in rows().iter().filter(|r2| r2.view == r.view && r2.base == r.base && r2.field == r.field && r2.accessor != r.accessor) {
        if let (Ok(b), Ok(a)) = ((r2.get)(&doc), (r2.get)(&obs.after)) {
            // (only when that part existed before: creating the field necessarily gives the other part a reading)
            if a != b && b != "None" {
                out.push(viol("sibling-accessor-unchanged", ctx(&format!("{} read {} before and {} after", key(r2), b, a))));
            }
        }
    }
    if comments(&doc) != comments(&obs.after) {
        out.push(viol("nothing-else-moves", ctx(&format!("comments {:?} -> {:?}", comments(&doc), comments(&obs.after)))));
    }
    out
}

fn check_seq(a: &Row, b: &Row) -> Vec<Viol> {
    let mut out = vec![];
    let doc = a.base.to_string();
    let ctx = |w: &str| format!("{} then {} on {:?}: {}", key(a), key(b), doc, w);
    let o1 = match (a.run)(&doc, 0) {
        Ok(o) => o,
        Err(e) => return vec![viol("setter-applies", ctx(&e))],
    };
    if o1.got != o1.want {
        return out; // the first setter alone already fails: reported by its own Set case
    }
    let o2 = match (b.run)(&o1.after, 0) {
        Ok(o) => o,
        Err(e) => return vec![viol("setter-applies", ctx(&format!("second setter on {:?}: {}", o1.after, e)))],
    };
    if o2.got != o2.want {
        out.push(viol("getter-returns-set-value", ctx(&format!("second getter returns {} expected {} (text {:?})", o2.got, o2.want, o2.after))));
    }
    if a.field != b.field {
        match (a.get)(&o2.after) {
            Ok(g) => {
                if g != o1.want {
                    out.push(viol("earlier-value-survives", ctx(&format!("after the second setter the first getter returns {} expected {} (text {:?})", g, o1.want, o2.after))));
                }
            }
            Err(e) => out.push(viol("earlier-value-survives", ctx(&format!("{} (text {:?})", e, o2.after)))),
        }
    }
    out
}

fn check_live(steps: &[(String, usize)]) -> Vec<Viol> {
    let rs = rows();
    let mut out = vec![];
    let rows_of: Vec<&Row> = steps.iter().filter_map(|(k, _)| rs.iter().find(|r| key(r) == *k)).collect();
    if rows_of.len() != steps.len() || rows_of.is_empty() {
        return out;
    }
    let doc = rows_of[0].base.to_string();
    let ctx = |w: &str| format!("live sequence {:?} on {:?}: {}", steps, doc, w);
    let mut view = match (rows_of[0].open_live)(&doc) {
        Ok(v) => v,
        Err(e) => return vec![viol("setter-applies", ctx(&e))],
    };
    // expected reading per field after the steps so far: field -> (row, want)
    let mut expect: Vec<(&Row, String)> = vec![];
    for (r, (_, vi)) in rows_of.iter().zip(steps.iter()) {
        // a setter that already fails alone is reported by its own Set case
        if let Ok(o) = (r.run)(&doc, *vi) {
            if o.got != o.want {
                return out;
            }
        }
        let want = match (r.apply_live)(view.as_mut(), *vi) {
            Ok(w) => w,
            Err(e) => return vec![viol("setter-applies", ctx(&format!("{}: {}", key(r), e)))],
        };
        expect.retain(|(r2, _)| r2.field != r.field);
        expect.push((r, want));
    }
    for (r, want) in &expect {
        match (r.get_live)(view.as_mut()) {
            Ok(g) if g == *want => {}
            Ok(g) => out.push(viol("live-sequence", ctx(&format!("{} returns {} on the live view, expected {}", key(r), g, want)))),
            Err(e) => out.push(viol("live-sequence", ctx(&format!("{}: {}", key(r), e)))),
        }
    }
    let printed = match (rows_of[0].print_live)(view.as_mut()) {
        Ok(p) => p,
        Err(e) => return vec![viol("live-sequence", ctx(&e))],
    };
    for (r, want) in &expect {
        match (r.get)(&printed) {
            Ok(g) if g == *want => {}
            Ok(g) => out.push(viol("live-sequence", ctx(&format!("{} returns {} after re-reading {:?}, expected {}", key(r), g, printed, want)))),
            Err(e) => out.push(viol("live-sequence", ctx(&format!("{} on re-read text {:?}: {}", key(r), printed, e)))),
        }
    }
    // nothing but the touched fields changed
    if let (Ok(b), Ok(a)) = (content(&doc), content(&printed)) {
        let touched: Vec<&str> = rows_of.iter().map(|r| r.field).collect();
        let strip = |c: &Content| -> Content { c.iter().map(|p| p.iter().filter(|(k, _)| !touched.contains(&k.as_str())).cloned().collect()).collect() };
        if strip(&b) != strip(&a) {
            out.push(viol("nothing-else-moves", ctx(&format!("other fields {:?} -> {:?}", strip(&b), strip(&a)))));
        }
        // each touched field occurs at most once
        for f in &touched {
            let n: usize = a.iter().map(|p| p.iter().filter(|(k, _)| k == f).count()).sum::<usize>();
            let nb: usize = b.iter().map(|p| p.iter().filter(|(k, _)| k == f).count()).sum::<usize>();
            if n > 1.max(nb) {
                out.push(viol("stored-in-one-field-of-that-name", ctx(&format!("{} fields named {:?} in {:?}", n, f, printed))));
            }
        }
    } else {
        out.push(viol("prints-well-formed", ctx(&format!("printed text {:?} does not parse", printed))));
    }
    out
}

fn check_read(r: &ReadRow, case: usize) -> Vec<Viol> {
    let (text, want) = r.cases[case];
    match (r.get)(text) {
        Ok(g) => {
            if g != want {
                vec![viol("documented-reading", format!("{} on {:?}: returns {} expected {}", rkey(r), text, g, want))]
            } else {
                vec![]
            }
        }
        Err(e) => vec![viol("documented-reading", format!("{} on {:?}: {}", rkey(r), text, e))],
    }
}

fn rows() -> Vec<Row> {
    crate::props::c15_rows::rows()
}
fn read_rows() -> Vec<ReadRow> {
    crate::props::c15_rows::read_rows()
}

impl Prop for C15 {
    type Case = C15Case;
    fn id(&self) -> &'static str {
        "C15"
    }
    fn level(&self) -> &'static str {
        "exploration"
    }
    fn rule(&self, _t: Tier) -> String {
        "full product of (accessor pair) x (every value of its menu, plus clearing where supported) x (8 prior states: field absent; present with another value; present with comment lines around and another field after; other fields before and after; inside a two-paragraph document after / before a paragraph of another kind; document without final newline with another field / with the accessor's own field last; for fields with a documented alias name (DEP-3 Author/From, Description/Subject) also: the field under its alias, under both names in either order, and another field of the view under its alias with the accessor's field absent / present / present as alias); per view every ordered pair of setters applied in sequence (the text printed after the first is re-read for the second); per view every ordered pair applied to ONE live view without re-reading, also followed by clearing or re-setting the first; every (getter, raw text) row of the reading table; non-trivial = every case".into()
    }
    fn bounds(&self, _t: Tier) -> Value {
        let rs = rows();
        let mut views: Vec<&str> = rs.iter().map(|r| r.view).collect();
        views.dedup();
        json!({"accessor_pairs": rs.len(), "views": views, "reading_rows": read_rows().len(), "prior_states": N_PRIORS})
    }
    fn assumptions(&self) -> Vec<String> {
        vec![
            "the Debian field name of every row is hand-written from Policy / deb822 man pages / the accessor's doc comment (trusted base)".into(),
            "a sequence is skipped when one of its setters already fails alone (reported once, by its own case)".into(),
        ]
    }
    fn n_shards(&self, _t: Tier) -> usize {
        4
    }
    fn explore(&self, _t: Tier, shard: usize, f: &mut dyn FnMut(&C15Case) -> Verdict) {
        match shard {
            0 => {
                for r in rows() {
                    let nv = r.n_values + if r.has_clear { 1 } else { 0 };
                    for prior in 0..N_PRIORS {
                        if prior_doc(&r, prior).is_none() {
                            continue;
                        }
                        for vi in 0..nv {
                            f(&C15Case::Set { row: key(&r), prior, vi });
                        }
                    }
                }
            }
            1 => {
                let rs = rows();
                for a in &rs {
                    for b in &rs {
                        if a.view == b.view && a.base == b.base {
                            f(&C15Case::Seq { first: key(a), second: key(b) });
                        }
                    }
                }
            }
            2 => {
                for r in read_rows() {
                    for case in 0..r.cases.len() {
                        f(&C15Case::Read { row: rkey(&r), case });
                    }
                }
            }
            _ => {
                // live sequences: every ordered pair (value 0 then value 0), every pair followed by clearing the first
                // or setting it again to its second value, per view
                let rs = rows();
                for a in &rs {
                    for b in &rs {
                        if a.view != b.view || a.base != b.base {
                            continue;
                        }
                        f(&C15Case::Live { steps: vec![(key(a), 0), (key(b), 0)] });
                        if a.accessor != b.accessor {
                            if a.has_clear {
                                f(&C15Case::Live { steps: vec![(key(a), 0), (key(b), 0), (key(a), a.n_values)] });
                            }
                            if a.n_values > 1 {
                                f(&C15Case::Live { steps: vec![(key(a), 0), (key(b), 0), (key(a), 1)] });
                            }
                        }
                    }
                }
            }
        }
    }
    fn check(&self, c: &C15Case, st: &mut Stats) -> Vec<Viol> {
        st.nontrivial += 1;
        let r = guard(1_000_000, || {
            let rs = rows();
            match c {
                C15Case::Set { row, prior, vi } => match rs.iter().find(|r| key(r) == *row) {
                    Some(r) => check_set(r, *prior, *vi),
                    None => vec![],
                },
                C15Case::Seq { first, second } => match (rs.iter().find(|r| key(r) == *first), rs.iter().find(|r| key(r) == *second)) {
                    (Some(a), Some(b)) => check_seq(a, b),
                    _ => vec![],
                },
                C15Case::Read { row, case } => match read_rows().iter().find(|r| rkey(r) == *row) {
                    Some(r) if *case < r.cases.len() => check_read(r, *case),
                    _ => vec![],
                },
                C15Case::Live { steps } => check_live(steps),
            }
        });
        match r {
            Ok(vs) => {
                if vs.is_empty() {
                    st.outcome(match c {
                        C15Case::Set { .. } => "set-ok",
                        C15Case::Seq { .. } => "seq-ok",
                        C15Case::Read { .. } => "read-ok",
                        C15Case::Live { .. } => "live-ok",
                    });
                }
                vs
            }
            Err(p) => vec![viol("panic", format!("{:?}: {}", c, panic_detail(&p)))],
        }
    }
    fn shrinks(&self, c: &C15Case) -> Vec<C15Case> {
        match c {
            C15Case::Set { row, prior, vi } => {
                let mut out = vec![];
                for p in 0..*prior {
                    out.push(C15Case::Set { row: row.clone(), prior: p, vi: *vi });
                }
                for v in 0..*vi {
                    out.push(C15Case::Set { row: row.clone(), prior: *prior, vi: v });
                }
                out
            }
            C15Case::Live { steps } if steps.len() > 1 => (0..steps.len())
                .map(|i| {
                    let mut s = steps.clone();
                    s.remove(i);
                    C15Case::Live { steps: s }
                })
                .collect(),
            _ => vec![],
        }
    }
    fn snippet(&self, c: &C15Case, v: &Viol) -> String {
        format!("// C15 replay: {:?}\n// clause {}: {}\n", c, v.clause, v.detail.replace('\n', "\\n"))
    }
    fn required_outcomes(&self) -> Vec<&'static str> {
        vec!["set-ok"]
    }
}
