//! C01 — lossless deb822 reader reproduces every input byte-for-byte (DESIGN 3/C01).

use crate::core::*;
use crate::strings::*;
use deb822_lossless::verif::SyntaxKind;
use deb822_lossless::Deb822;
use rowan::ast::AstNode;
use serde::{Deserialize, Serialize};
use serde_json::{json, Value};
use std::str::FromStr;

#[derive(Clone, Serialize, Deserialize, PartialEq, Debug)]
pub struct StrCase {
    pub s: String,
    /// counted as a distinct case (false for variants that may duplicate another case)
    #[serde(default, skip_serializing)]
    pub fresh: bool,
}

pub const DEB822_CLASSES: [&str; 10] = ["A", "-", ":", "#", " ", "\t", "\n", "\r", "é", "\u{1}"];
pub const DEB822_CLASSES_WIDE: [&str; 11] = ["A", "-", ":", "#", " ", "\t", "\n", "\r", "é", "\u{1}", "😀"];
pub const DEB822_LINES: [&str; 16] = [
    "K: v", "K:", "K", "K :v", " v", "\tv", "# c", " # c", "", " ", "-x: v", ": v", "é", "K: é", "K: a:b", " :v",
];

pub fn deb822_space(tier: Tier) -> MultiSpace {
    let mut spaces = vec![];
    spaces.push((SeqSpace::new(&DEB822_CLASSES, tier.pick(6, 8), 2), false));
    // lines x {LF, CRLF, CR}
    let mut l3: Vec<String> = vec![];
    for l in DEB822_LINES {
        for t in ["\n", "\r\n", "\r"] {
            l3.push(format!("{}{}", l, t));
        }
    }
    let l3r: Vec<&str> = l3.iter().map(|s| s.as_str()).collect();
    spaces.push((SeqSpace::new(&l3r, tier.pick(2, 3), 1), true));
    let l1: Vec<String> = DEB822_LINES.iter().map(|l| format!("{}\n", l)).collect();
    let l1r: Vec<&str> = l1.iter().map(|s| s.as_str()).collect();
    spaces.push((SeqSpace::new(&l1r, tier.pick(4, 5), 1), true));
    if tier == Tier::Thorough {
        spaces.push((SeqSpace::new(&DEB822_CLASSES_WIDE, 7, 2), false));
    }
    MultiSpace { spaces }
}

/// Explore a MultiSpace as StrCases; `fresh` marks the cases known to be pairwise distinct.
pub fn explore_strs(ms: &MultiSpace, shard: usize, f: &mut dyn FnMut(&StrCase) -> Verdict) {
    let mut case = StrCase { s: String::new(), fresh: false };
    let first_line_max = ms.spaces.get(1).map(|s| s.0.max_len).unwrap_or(0);
    ms.explore(shard, &mut |s, space, len, stripped| {
        case.s.clear();
        case.s.push_str(s);
        case.fresh = match space {
            0 => true,
            1 => !stripped,
            2 => !stripped && len > first_line_max,
            _ => false,
        };
        f(&case);
    });
}

pub struct C01;

pub fn tree_tokens(d: &Deb822) -> Vec<(SyntaxKind, String)> {
    d.syntax()
        .descendants_with_tokens()
        .filter_map(|e| e.into_token())
        .map(|t| (t.kind(), t.text().to_string()))
        .collect()
}

impl Prop for C01 {
    type Case = StrCase;
    fn id(&self) -> &'static str {
        "C01"
    }
    fn level(&self) -> &'static str {
        "model_checking"
    }
    fn rule(&self, _t: Tier) -> String {
        "every string over the deb822 character-class alphabet up to the length bound (the full input trie: states = strings = trie nodes, transitions = trie edges), plus every sequence of line templates x line terminators up to the line bound (each also without its final character); plus one document per (token kind, length) with a single token stretched to 255 / 256 / 257 / 65535 / 65536 / 65537 characters, and documents with 256 / 257 / 65536 error tokens, fields, continuation lines, paragraphs or comment lines; each string is one execution of from_str, from_str_relaxed, read, read_relaxed and the lexer; non-trivial = distinct string whose token stream has >= 2 tokens (only cases known to be pairwise distinct are counted)".into()
    }
    fn bounds(&self, t: Tier) -> Value {
        json!({"spaces": deb822_space(t).describe()})
    }
    fn assumptions(&self) -> Vec<String> {
        vec![
            "characters outside the class representatives behave like their class (validated exhaustively per lexer mode by the class_validation block)".into(),
            "strings longer than the bound reach no parser control state that shorter ones do not (finite control; supported by the parser loop coverage counters, not proved)".into(),
        ]
    }
    fn n_shards(&self, t: Tier) -> usize {
        deb822_space(t).n_shards() + 1
    }
    fn explore(&self, t: Tier, shard: usize, f: &mut dyn FnMut(&StrCase) -> Verdict) {
        let sp = deb822_space(t);
        if shard == sp.n_shards() {
            for s in witness_strings() {
                f(&StrCase { s, fresh: false });
            }
            for s in long_token_docs() {
                f(&StrCase { s, fresh: false });
            }
        } else {
            explore_strs(&sp, shard, f)
        }
    }
    fn check(&self, c: &StrCase, st: &mut Stats) -> Vec<Viol> {
        let s = c.s.as_str();
        let mut out = vec![];
        let r = guard(budget_for(s.len()), || {
            let mut out: Vec<Viol> = vec![];
            let (d, errs) = Deb822::from_str_relaxed(s);
            let printed = d.to_string();
            if printed != s {
                out.push(viol("relaxed-roundtrip", format!("printed {}", crate::strings::brief(&printed))));
            }
            let strict = Deb822::from_str(s);
            if strict.is_ok() != errs.is_empty() {
                out.push(viol(
                    "strict-iff-no-errors",
                    format!("strict ok={} relaxed errors={:?}", strict.is_ok(), errs),
                ));
            }
            if let Ok(d2) = &strict {
                let p2 = d2.to_string();
                if p2 != s {
                    out.push(viol("strict-roundtrip", format!("printed {}", crate::strings::brief(&p2))));
                }
            }
            // readers over bytes
            match Deb822::read_relaxed(std::io::Cursor::new(s.as_bytes())) {
                Ok((d3, e3)) => {
                    if d3.to_string() != s || e3 != errs {
                        out.push(viol("read-relaxed-agrees", format!("printed {} errors {:?}", crate::strings::brief(&d3.to_string()), e3)));
                    }
                }
                Err(e) => out.push(viol("read-relaxed-agrees", format!("io error {}", e))),
            }
            match Deb822::read(std::io::Cursor::new(s.as_bytes())) {
                Ok(d4) => {
                    if !strict.is_ok() || d4.to_string() != s {
                        out.push(viol("read-agrees", format!("read ok, strict ok={}", strict.is_ok())));
                    }
                }
                Err(_) => {
                    if strict.is_ok() {
                        out.push(viol("read-agrees", "read failed, strict ok".to_string()));
                    }
                }
            }
            // the same bytes delivered in short reads: 1 byte at a time for every string, 2 and 3 at a time when a
            // multi-byte character could be split differently; and a reader that fails half-way must give an error
            let chunks: &[usize] = if s.is_ascii() { &[1] } else { &[1, 2, 3] };
            for k in chunks {
                match Deb822::read_relaxed(crate::strings::ChunkReader::new(s.as_bytes(), *k)) {
                    Ok((d5, e5)) => {
                        if d5.to_string() != s || e5 != errs {
                            out.push(viol("read-relaxed-agrees", format!("{}-byte reads: printed {} errors {:?}", k, crate::strings::brief(&d5.to_string()), e5)));
                        }
                    }
                    Err(e) => out.push(viol("read-relaxed-agrees", format!("{}-byte reads: io error {}", k, e))),
                }
                match Deb822::read(crate::strings::ChunkReader::new(s.as_bytes(), *k)) {
                    Ok(d6) => {
                        if !strict.is_ok() || d6.to_string() != s {
                            out.push(viol("read-agrees", format!("{}-byte reads: read ok printing {}, strict ok={}", k, crate::strings::brief(&d6.to_string()), strict.is_ok())));
                        }
                    }
                    Err(_) => {
                        if strict.is_ok() {
                            out.push(viol("read-agrees", format!("{}-byte reads: read failed, strict ok", k)));
                        }
                    }
                }
            }
            if !s.is_empty() {
                let half = s.len() / 2;
                if Deb822::read_relaxed(crate::strings::ChunkReader::failing(s.as_bytes(), 2, half)).is_ok() || Deb822::read(crate::strings::ChunkReader::failing(s.as_bytes(), 2, half)).is_ok() {
                    out.push(viol("read-agrees", format!("a reader failing after {} bytes yields a document", half)));
                }
            }
            // the same text handed over as a file
            crate::props::c02::with_file(s, |path| {
                match Deb822::from_file_relaxed(path) {
                    Ok((d7, e7)) => {
                        if d7.to_string() != s || e7 != errs {
                            out.push(viol("read-relaxed-agrees", format!("from_file_relaxed: printed {} errors {:?}", crate::strings::brief(&d7.to_string()), e7)));
                        }
                    }
                    Err(e) => out.push(viol("read-relaxed-agrees", format!("from_file_relaxed: {}", e))),
                }
                match Deb822::from_file(path) {
                    Ok(d8) => {
                        if !strict.is_ok() || d8.to_string() != s {
                            out.push(viol("read-agrees", format!("from_file ok printing {}, strict ok={}", crate::strings::brief(&d8.to_string()), strict.is_ok())));
                        }
                    }
                    Err(_) => {
                        if strict.is_ok() {
                            out.push(viol("read-agrees", "from_file failed, strict ok".to_string()));
                        }
                    }
                }
            });
            // token partition
            let toks = deb822_lossless::verif::lex(s);
            let cat: String = toks.iter().map(|(_, t)| t.as_str()).collect();
            if cat != s || toks.iter().any(|(_, t)| t.is_empty()) {
                out.push(viol("lexer-partition", format!("tokens {}", crate::strings::brief(&format!("{:?}", toks)))));
            }
            let tt = tree_tokens(&d);
            if tt != toks {
                out.push(viol("tree-tokens-equal-lexer", format!("tree {} lexer {}", crate::strings::brief(&format!("{:?}", tt)), crate::strings::brief(&format!("{:?}", toks)))));
            }
            (out, toks.len(), errs.is_empty())
        });
        st.max_ticks = st.max_ticks.max(deb822_lossless::verif::ticks());
        match r {
            Ok((vs, ntok, ok)) => {
                out.extend(vs);
                if c.fresh && ntok >= 2 {
                    st.nontrivial += 1;
                }
                if ok {
                    st.outcome_with("accepted", c)
                } else {
                    st.outcome_with("rejected-with-errors", c)
                }
            }
            Err(p) => {
                let clause = if is_budget(&p) { "hang" } else { "panic" };
                st.outcome_with(clause, c);
                out.push(viol(clause, panic_detail(&p)));
            }
        }
        out
    }
    fn shrinks(&self, c: &StrCase) -> Vec<StrCase> {
        shrink_string(&c.s).into_iter().map(|s| StrCase { s, fresh: false }).collect()
    }
    fn snippet(&self, c: &StrCase, v: &Viol) -> String {
        format!(
            "#[test]\nfn c01_replay() {{\n    use std::str::FromStr;\n    let s = {:?};\n    let (d, errs) = deb822_lossless::Deb822::from_str_relaxed(s);\n    assert_eq!(d.to_string(), s);\n    assert_eq!(deb822_lossless::Deb822::from_str(s).is_ok(), errs.is_empty());\n    // violated clause: {} ({})\n}}\n",
            c.s, v.clause, v.detail.replace('\n', "\\n")
        )
    }
    fn required_outcomes(&self) -> Vec<&'static str> {
        vec!["accepted", "rejected-with-errors"]
    }
    fn extra_evidence(&self, tier: Tier, m: &Stats) -> Value {
        // saturation: parser (loop site x current token kind) pairs reached by all class strings two symbols shorter
        // than the bound, compared with the pairs reached by the whole run
        let n = tier.pick(6, 8) - 2;
        deb822_lossless::verif::reset_coverage();
        let sp = SeqSpace::new(&DEB822_CLASSES, n, 0);
        sp.explore(0, &mut |s, _| {
            let _ = guard(budget_for(s.len()), || {
                let _ = Deb822::from_str_relaxed(s);
            });
        });
        let small: u64 = deb822_lossless::verif::coverage().iter().map(|c| c.count_ones() as u64).sum();
        let full: u64 = m.coverage.iter().map(|c| c.count_ones() as u64).sum();
        json!({
            "class_validation": class_validation(tier),
            "trie_nodes": m.evaluations,
            "abstract_coverage": {"parser_pairs_whole_run": full, "parser_pairs_class_strings_two_shorter": small, "length_two_shorter": n, "saturated": small == full},
        })
    }
}

/// Conformance of the only abstraction used: every ASCII char and a list of non-ASCII chars
/// must lex to the same token kinds as its class representative, in every lexer mode
/// (a witness prefix per mode), for lex and lex_inline.
pub fn class_of(c: char) -> &'static str {
    match c {
        ':' => ":",
        '#' => "#",
        ' ' => " ",
        '\t' => "\t",
        '\n' => "\n",
        '\r' => "\r",
        '-' => "-",
        c if c.is_ascii_graphic() => "A",
        c if c.is_ascii() => "\u{1}",
        _ => "é",
    }
}

// lexer modes: (start_of_line, colon seen, indent>0) -> witness prefixes
const W_PREFIXES: [&str; 14] = ["", "A", "A:", "A: ", "A:A", " ", " A", "A\n", "A:A\n ", "#", "# A\n", "\u{1}", "A:A:", "-"];
const W_SUFFIXES: [&str; 6] = ["", "A", ":", "\n", " A", ":A\nA:A"];
pub fn w_chars() -> Vec<char> {
    let mut chars: Vec<char> = (0u8..128).map(|b| b as char).collect();
    chars.extend(['é', 'ü', 'ĳ', '€', '\u{2028}', '\u{a0}', '\u{85}', '😀', '\u{10ffff}', '\u{feff}', '\u{80}', '\u{ff}', '\u{ffff}', '\u{3000}']);
    chars
}
/// Lengths around the limits of the narrow integer types (a length or offset kept in a u8 / u16 wraps there).
pub const WIDTH_LIMITS: [usize; 6] = [255, 256, 257, 65535, 65536, 65537];

/// One document per (token kind, length): a single token of that kind stretched to the length, between ordinary lines.
pub fn long_token_docs() -> Vec<String> {
    let mut v = vec![];
    for n in WIDTH_LIMITS {
        v.push(format!("A: {}\nB: c\n", "v".repeat(n))); // value
        v.push(format!("A: {}\nB: c\n", "\u{e9}".repeat(n))); // value of two-byte characters
        v.push(format!("A: b\n {}\nB: c\n", "w".repeat(n))); // continuation line
        v.push(format!("#{}\nA: b\n", "c".repeat(n))); // comment
        v.push(format!("{}: v\nB: c\n", "K".repeat(n))); // field name
        v.push(format!("A: b\n{}c\nD: e\n", " ".repeat(n))); // indentation
        v.push(format!("A:{}b\nB: c\n", " ".repeat(n))); // blanks after the colon
        v.push(format!("A: b\n{}C: d\n", "\n".repeat(n))); // blank lines
        v.push(format!("{}\nA: b\n", "x".repeat(n))); // a malformed line
        v.push(format!("A: {}", "v".repeat(n))); // unterminated last token
    }
    // ... and COUNTS of tokens / nodes at the same limits: error tokens, fields, continuation lines, paragraphs, comments
    for n in [256usize, 257, 65536] {
        v.push("-".repeat(n));
        v.push("A: b\n".repeat(n));
        v.push(format!("A: b\n{}", " c\n".repeat(n)));
        v.push("A: b\n\n".repeat(n));
        v.push("# c\n".repeat(n));
    }
    v
}

/// every lexer-mode witness prefix x every ASCII char and some non-ASCII chars x suffix:
/// these strings get the full C01 check as well (not only the class comparison).
pub fn witness_strings() -> Vec<String> {
    let mut v = vec![];
    for p in W_PREFIXES {
        for suf in W_SUFFIXES {
            for c in w_chars() {
                v.push(format!("{}{}{}", p, c, suf));
            }
        }
    }
    v
}

pub fn class_validation(_tier: Tier) -> Value {
    let prefixes = W_PREFIXES;
    let suffixes = W_SUFFIXES;
    let chars = w_chars();
    let mut cases = 0u64;
    let mut mismatches: Vec<String> = vec![];
    let kinds = |s: &str| -> Result<Vec<(SyntaxKind, usize)>, String> {
        guard(10_000, || {
            deb822_lossless::verif::lex(s)
                .into_iter()
                .map(|(k, t)| (k, t.chars().count()))
                .collect::<Vec<_>>()
        })
        .map_err(|p| p.msg)
    };
    for p in prefixes {
        for suf in suffixes {
            for &c in &chars {
                let rep = class_of(c);
                let a = format!("{}{}{}", p, c, suf);
                let b = format!("{}{}{}", p, rep, suf);
                cases += 1;
                let (ka, kb) = (kinds(&a), kinds(&b));
                if ka != kb && mismatches.len() < 5 {
                    mismatches.push(format!("{:?} vs {:?}: {:?} / {:?}", a, b, ka, kb));
                }
            }
        }
    }
    json!({"class_validation_cases": cases, "mismatches": mismatches})
}
