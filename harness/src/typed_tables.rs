//! Field tables of every struct that derives the paragraph conversions.  Fields are listed in the
//! struct's DECLARATION order; `valid` values are raw texts as they appear in files, in the normal
//! form of the field's `norm`; `invalid` is a raw text the field's type must reject (None for types
//! that accept every string).

use crate::para_spec;
use crate::typed::Norm::*;
use crate::typed::{FieldSpec, ParaSpec};

macro_rules! f {
    ($name:literal, $mand:literal, [$($v:literal),+], $norm:expr, $inv:expr) => {
        FieldSpec { name: $name, mandatory: $mand, valid: &[$($v),+], norm: $norm, invalid: $inv }
    };
}

// ---- debian_control::lossy::ftpmaster::Removal ------------------------------------------------------
const REMOVAL: &[FieldSpec] = &[
    f!("Date", true, ["Thu, 01 Jan 2015 00:00:00 +0000", "Fri, 02 Jan 2015 10:00:00 +0000"], Exact, None),
    f!("Suite", false, ["unstable", "experimental"], Exact, None),
    f!("Ftpmaster", true, ["Joe Admin", "Jane Admin"], Exact, None),
    f!("Sources", false, ["foo_1.0-1", "foo_1.0-1\nbar_2.0-1"], Lines, None),
    f!("Binaries", false, ["foo_1.0-1 [amd64]", "foo_1.0-1 [amd64]\nlibfoo1_1.0-1 [amd64, i386]"], Lines, None),
    f!("Reason", true, ["ROM; obsolete", "RoQA; dead upstream"], Exact, None),
    f!("Bug", false, ["123456", "1"], Normal, Some("12a")),
];

pub fn specs() -> Vec<ParaSpec> {
    vec![
        para_spec!(debian_control::lossy::ftpmaster::Removal, "lossy::ftpmaster::Removal", REMOVAL, items),
    ]
}
