//! Field tables and generic drivers for the structs that derive the paragraph conversions
//! (FromDeb822 / ToDeb822).  Shared by C02 (totality on typed documents), C16 (derived
//! conversions) and C20 (typed lossy documents).  The tables are in typed_tables.rs.

use deb822_lossless::lossy;
use deb822_lossless::{FromDeb822Paragraph, Paragraph, ToDeb822Paragraph};
use std::str::FromStr;

/// How a raw field value (as written in a file) and the value the struct writes back are compared.
#[derive(Clone, Copy, PartialEq, Debug)]
pub enum Norm {
    /// byte-identical
    Exact,
    /// whitespace-separated list: compared as the list of words
    Words,
    /// one item per line: compared as the list of trimmed non-empty lines
    Lines,
    /// comma-separated list: compared as the list of trimmed items
    Commas,
    /// relationship field: compared as whitespace-insensitive list of lists of alternatives
    Relations,
    /// parsed and printed by a type whose Display normalises (URL, version, date, number): the table's
    /// valid values are already in normal form, so Exact is expected for them
    Normal,
}

pub struct FieldSpec {
    pub name: &'static str,
    pub mandatory: bool,
    /// valid raw values, simplest first, at least two distinct ones, all in the normal form of `norm`
    pub valid: &'static [&'static str],
    pub norm: Norm,
    /// a raw value that the field's type must reject (None when every string is accepted, e.g. String fields)
    pub invalid: Option<&'static str>,
}

pub type Items = Vec<(String, String)>;

pub struct ParaSpec {
    /// e.g. "lossy::control::Source"
    pub id: &'static str,
    /// in the struct's declaration order
    pub fields: &'static [FieldSpec],
    /// T::from_paragraph(&P) then to_paragraph::<P>() -> items, for P = lossy / lossless paragraph parsed from the text
    pub roundtrip: fn(text: &str, lossless: bool) -> Result<Items, String>,
    /// value parsed from `value_text`; update_paragraph on the paragraph parsed from `target_text`; printed result
    pub update: fn(value_text: &str, target_text: &str, lossless: bool) -> Result<String, String>,
    /// are the values parsed from the two texts equal?  (PartialEq where the type has it, else equality of re-serialisation)
    pub equal: fn(a: &str, b: &str) -> Result<bool, String>,
    /// the value arrives in memory, never through text: see mem_generic
    pub mem: fn(items: &Items) -> Result<(), String>,
}

pub trait HasItems {
    fn all_items(&self) -> Items;
}
impl HasItems for lossy::Paragraph {
    fn all_items(&self) -> Items {
        self.iter().map(|(k, v)| (k.to_string(), v.to_string())).collect()
    }
}
impl HasItems for Paragraph {
    fn all_items(&self) -> Items {
        self.items().collect()
    }
}

pub fn lossy_para(text: &str) -> Result<lossy::Paragraph, String> {
    if text.is_empty() {
        return Ok(lossy::Paragraph { fields: vec![] }); // a value with no field present
    }
    lossy::Paragraph::from_str(text).map_err(|e| format!("lossy paragraph: {}", e))
}
pub fn lossless_para(text: &str) -> Result<Paragraph, String> {
    if text.is_empty() {
        return Ok(Paragraph::new());
    }
    Paragraph::from_str(text).map_err(|e| format!("lossless paragraph: {}", e.to_string().replace('\n', "; ")))
}

pub fn roundtrip_generic<T>(text: &str, lossless: bool) -> Result<Items, String>
where
    T: FromDeb822Paragraph<lossy::Paragraph> + ToDeb822Paragraph<lossy::Paragraph> + FromDeb822Paragraph<Paragraph> + ToDeb822Paragraph<Paragraph>,
{
    // the paragraph that to_paragraph() builds must also PRINT to text that reads back to the same fields
    // (an object can answer its accessors correctly and still print something else)
    let same = |a: &Items, b: &Items| -> bool {
        let n = |it: &Items| -> Vec<(String, Vec<String>)> { it.iter().map(|(k, v)| (k.clone(), v.split('\n').map(|l| l.trim().to_string()).filter(|l| !l.is_empty()).collect())).collect() };
        n(a) == n(b)
    };
    if lossless {
        let p = lossless_para(text)?;
        let v = <T as FromDeb822Paragraph<Paragraph>>::from_paragraph(&p)?;
        let q: Paragraph = v.to_paragraph();
        let items = q.all_items();
        let printed = q.to_string();
        let back = lossless_para(&printed).map_err(|e| format!("to_paragraph() prints {:?}, which does not re-read: {}", printed, e))?.all_items();
        if !same(&back, &items) {
            return Err(format!("to_paragraph() reports {:?} but prints {:?}, which re-reads as {:?}", items, printed, back));
        }
        Ok(items)
    } else {
        let p = lossy_para(text)?;
        let v = <T as FromDeb822Paragraph<lossy::Paragraph>>::from_paragraph(&p)?;
        let q: lossy::Paragraph = v.to_paragraph();
        let items = q.all_items();
        let printed = q.to_string();
        let back = lossy_para(&printed).map_err(|e| format!("to_paragraph() prints {:?}, which does not re-read: {}", printed, e))?.all_items();
        if !same(&back, &items) {
            return Err(format!("to_paragraph() reports {:?} but prints {:?}, which re-reads as {:?}", items, printed, back));
        }
        Ok(items)
    }
}

pub fn update_generic<T>(value_text: &str, target_text: &str, lossless: bool) -> Result<String, String>
where
    T: FromDeb822Paragraph<lossy::Paragraph> + ToDeb822Paragraph<lossy::Paragraph> + FromDeb822Paragraph<Paragraph> + ToDeb822Paragraph<Paragraph>,
{
    let v = <T as FromDeb822Paragraph<lossy::Paragraph>>::from_paragraph(&lossy_para(value_text)?)?;
    let want: lossy::Paragraph = v.to_paragraph();
    // "@built:<text>": the target is not parsed but built by to_paragraph() from the value that <text> describes
    let built = target_text.strip_prefix("@built:");
    if lossless {
        let mut p = match built {
            Some(t) => {
                let other = <T as FromDeb822Paragraph<lossy::Paragraph>>::from_paragraph(&lossy_para(t)?)?;
                <T as ToDeb822Paragraph<Paragraph>>::to_paragraph(&other)
            }
            None if target_text.is_empty() => Paragraph::new(),
            None => lossless_para(target_text)?,
        };
        <T as ToDeb822Paragraph<Paragraph>>::update_paragraph(&v, &mut p);
        // the live paragraph reads back as the value, not only its printed text
        let live = <T as FromDeb822Paragraph<Paragraph>>::from_paragraph(&p).map_err(|e| format!("the updated live paragraph {:?} does not read back: {}", p.to_string(), e))?;
        let got: lossy::Paragraph = live.to_paragraph();
        if got != want {
            return Err(format!("the updated live paragraph {:?} reads back as {:?}, the value is {:?}", p.to_string(), got.all_items(), want.all_items()));
        }
        Ok(p.to_string())
    } else {
        let mut p = match built {
            Some(t) => {
                let other = <T as FromDeb822Paragraph<lossy::Paragraph>>::from_paragraph(&lossy_para(t)?)?;
                <T as ToDeb822Paragraph<lossy::Paragraph>>::to_paragraph(&other)
            }
            None if target_text.is_empty() => lossy::Paragraph { fields: vec![] },
            None => lossy_para(target_text)?,
        };
        <T as ToDeb822Paragraph<lossy::Paragraph>>::update_paragraph(&v, &mut p);
        let live = <T as FromDeb822Paragraph<lossy::Paragraph>>::from_paragraph(&p).map_err(|e| format!("the updated live paragraph {:?} does not read back: {}", p.to_string(), e))?;
        let got: lossy::Paragraph = live.to_paragraph();
        if got != want {
            return Err(format!("the updated live paragraph {:?} reads back as {:?}, the value is {:?}", p.to_string(), got.all_items(), want.all_items()));
        }
        Ok(p.to_string())
    }
}

/// A value that never existed as text: the source paragraph is assembled in memory (collected from pairs) on back-end A,
/// read into the struct, and that struct is converted to a paragraph and back on back-end B - for all four (A, B).  The
/// statement's "converting a value to a paragraph and back returns an equal value" is compared through the lossy
/// re-serialisation of both values (which stores strings as they are).  Values are those a file cannot carry unchanged:
/// blanks around a one-line value, a value that starts with a line break.
pub fn mem_generic<T>(items: &Items) -> Result<(), String>
where
    T: FromDeb822Paragraph<lossy::Paragraph> + ToDeb822Paragraph<lossy::Paragraph> + FromDeb822Paragraph<Paragraph> + ToDeb822Paragraph<Paragraph>,
{
    let mut firsts: Vec<Items> = vec![];
    for a_lossless in [false, true] {
        let an = if a_lossless { "lossless" } else { "lossy" };
        let v0: T = if a_lossless {
            let p: Paragraph = items.iter().cloned().collect();
            <T as FromDeb822Paragraph<Paragraph>>::from_paragraph(&p).map_err(|e| format!("in-memory {} paragraph {:?} rejected: {}", an, items, e))?
        } else {
            let p: lossy::Paragraph = items.iter().cloned().collect();
            <T as FromDeb822Paragraph<lossy::Paragraph>>::from_paragraph(&p).map_err(|e| format!("in-memory {} paragraph {:?} rejected: {}", an, items, e))?
        };
        let w0: lossy::Paragraph = v0.to_paragraph();
        for b_lossless in [false, true] {
            let bn = if b_lossless { "lossless" } else { "lossy" };
            let v1: T = if b_lossless {
                let q: Paragraph = v0.to_paragraph();
                <T as FromDeb822Paragraph<Paragraph>>::from_paragraph(&q).map_err(|e| format!("value {:?} (read from an in-memory {} paragraph): its {} paragraph does not read back: {}", w0.all_items(), an, bn, e))?
            } else {
                let q: lossy::Paragraph = v0.to_paragraph();
                <T as FromDeb822Paragraph<lossy::Paragraph>>::from_paragraph(&q).map_err(|e| format!("value {:?} (read from an in-memory {} paragraph): its {} paragraph does not read back: {}", w0.all_items(), an, bn, e))?
            };
            let w1: lossy::Paragraph = v1.to_paragraph();
            if w1 != w0 {
                return Err(format!("value {:?} (read from an in-memory {} paragraph) -> {} paragraph -> back gives {:?}", w0.all_items(), an, bn, w1.all_items()));
            }
        }
        firsts.push(w0.all_items());
    }
    if firsts[0] != firsts[1] {
        return Err(format!("@backends: in-memory paragraph {:?} reads as {:?} on the lossy and as {:?} on the lossless back-end", items, firsts[0], firsts[1]));
    }
    Ok(())
}

/// equality through re-serialisation (for types without PartialEq)
pub fn equal_by_items<T>(a: &str, b: &str) -> Result<bool, String>
where
    T: FromDeb822Paragraph<lossy::Paragraph> + ToDeb822Paragraph<lossy::Paragraph>,
{
    let va = <T as FromDeb822Paragraph<lossy::Paragraph>>::from_paragraph(&lossy_para(a)?)?;
    let vb = <T as FromDeb822Paragraph<lossy::Paragraph>>::from_paragraph(&lossy_para(b)?)?;
    let (pa, pb): (lossy::Paragraph, lossy::Paragraph) = (va.to_paragraph(), vb.to_paragraph());
    Ok(pa == pb)
}

pub fn equal_by_eq<T>(a: &str, b: &str) -> Result<bool, String>
where
    T: FromDeb822Paragraph<lossy::Paragraph> + PartialEq,
{
    let va = <T as FromDeb822Paragraph<lossy::Paragraph>>::from_paragraph(&lossy_para(a)?)?;
    let vb = <T as FromDeb822Paragraph<lossy::Paragraph>>::from_paragraph(&lossy_para(b)?)?;
    Ok(va == vb)
}

#[macro_export]
macro_rules! para_spec {
    ($ty:ty, $id:literal, $fields:expr, eq) => {
        $crate::typed::ParaSpec {
            id: $id,
            fields: $fields,
            roundtrip: $crate::typed::roundtrip_generic::<$ty>,
            update: $crate::typed::update_generic::<$ty>,
            equal: $crate::typed::equal_by_eq::<$ty>,
            mem: $crate::typed::mem_generic::<$ty>,
        }
    };
    ($ty:ty, $id:literal, $fields:expr, items) => {
        $crate::typed::ParaSpec {
            id: $id,
            fields: $fields,
            roundtrip: $crate::typed::roundtrip_generic::<$ty>,
            update: $crate::typed::update_generic::<$ty>,
            equal: $crate::typed::equal_by_items::<$ty>,
            mem: $crate::typed::mem_generic::<$ty>,
        }
    };
}

/// Normalise a raw value for comparison.
pub fn normalise(norm: Norm, v: &str) -> Vec<Vec<String>> {
    let squash = |s: &str| s.chars().filter(|c| !c.is_whitespace()).collect::<String>();
    match norm {
        Norm::Exact | Norm::Normal => vec![vec![v.to_string()]],
        Norm::Words => vec![v.split_whitespace().map(|s| s.to_string()).collect()],
        Norm::Lines => vec![v.split('\n').map(|s| s.trim().to_string()).filter(|s| !s.is_empty()).collect()],
        Norm::Commas => vec![v.split(',').map(|s| s.trim().to_string()).filter(|s| !s.is_empty()).collect()],
        Norm::Relations => v
            .split(',')
            .map(|e| e.split('|').map(squash).filter(|x| !x.is_empty()).collect::<Vec<_>>())
            .filter(|e: &Vec<String>| !e.is_empty())
            .collect(),
    }
}

/// Render a paragraph from (name, raw value) pairs the way a file would carry them.
pub fn render_para(fields: &[(&str, &str)]) -> String {
    let mut t = String::new();
    for (k, v) in fields {
        t.push_str(k);
        t.push_str(": ");
        t.push_str(&v.replace('\n', "\n "));
        t.push('\n');
    }
    t
}
