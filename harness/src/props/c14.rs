//! C14 — lossy relations round-trip through text and convert faithfully to lossless (DESIGN 3/C14).

use crate::core::*;
use crate::kdev::product;
use crate::relgen::*;
use debian_control::lossless::relations as ll;
use debian_control::lossy as ly;
use debian_control::relations::{BuildProfile, VersionConstraint};
use serde::{Deserialize, Serialize};
use serde_json::{json, Value};
use std::str::FromStr;

const NAMES14: [&str; 2] = ["a", "lib-x"];
const QUALS: [Option<&str>; 2] = [None, Some("any")];
const VERSIONS: [Option<(&str, &str)>; 6] = [None, Some((">=", "1")), Some(("<<", "2:1.0-1")), Some(("=", "1.0~rc1")), Some(("<=", "1")), Some((">>", "1"))];
const ARCHS14: [Option<&[&str]>; 7] = [None, Some(&[]), Some(&["amd64"]), Some(&["amd64", "i386"]), Some(&["!amd64"]), Some(&["!amd64", "!i386"]), Some(&["i386", "amd64", "arm64"])];
/// every group shape: 1..3 terms (names x, y, z in that order), every negation pattern -> 14 shapes;
/// profile lists: none, one group (14), two groups (first from 14, second from 4 representative shapes)
fn group_shapes() -> Vec<Vec<String>> {
    let names = ["x", "y", "z"];
    let mut out = vec![];
    for n in 1..=3usize {
        for mask in 0..(1u32 << n) {
            out.push((0..n).map(|i| if mask & (1 << i) != 0 { format!("!{}", names[i]) } else { names[i].to_string() }).collect());
        }
    }
    out
}
fn profs() -> Vec<Vec<Vec<String>>> {
    let g = group_shapes();
    let mut out: Vec<Vec<Vec<String>>> = vec![vec![]];
    for a in &g {
        out.push(vec![a.clone()]);
    }
    for a in &g {
        for b in [&g[0], &g[1], &g[3], &g[12]] {
            out.push(vec![a.clone(), b.clone()]);
        }
    }
    // three and four groups (a group is added after the LAST existing one)
    out.push(vec![g[0].clone(), g[1].clone(), g[3].clone()]);
    out.push(vec![g[1].clone(), g[12].clone(), g[0].clone()]);
    out.push(vec![g[3].clone(), g[0].clone(), g[1].clone()]);
    out.push(vec![g[0].clone(), g[0].clone(), g[0].clone()]);
    out.push(vec![g[0].clone(), g[1].clone(), g[3].clone(), g[12].clone()]);
    out
}

#[derive(Clone, Serialize, Deserialize, PartialEq, Debug)]
pub struct C14Case {
    /// one choice vector [name, qual, version, archs, profiles] per relation; outer = entries, inner = alternatives
    pub field: Vec<Vec<[usize; 5]>>,
    /// instead: a lossy value obtained by PARSING the text that relgen renders for this relation-slot vector
    /// (non-canonical layouts: the value then goes through the same print / re-read / conversion checks)
    #[serde(default, skip_serializing_if = "Option::is_none")]
    pub parsed: Option<Vec<usize>>,
}

fn menus() -> [usize; 5] {
    [NAMES14.len(), QUALS.len(), VERSIONS.len(), ARCHS14.len(), profs().len()]
}

fn mk(v: &[usize; 5]) -> ly::Relation {
    let mut r = ly::Relation::new();
    r.name = NAMES14[v[0]].to_string();
    r.archqual = QUALS[v[1]].map(|s| s.to_string());
    r.version = VERSIONS[v[2]].map(|(op, ver)| (VersionConstraint::from_str(op).unwrap(), ver.parse().unwrap()));
    r.architectures = ARCHS14[v[3]].map(|a| a.iter().map(|s| s.to_string()).collect());
    r.profiles = profs()[v[4]]
        .iter()
        .map(|g| g.iter().map(|t| BuildProfile::from_str(t).unwrap()).collect())
        .collect();
    r
}

/// the 12-element subset used for multi-relation fields
fn subset() -> Vec<[usize; 5]> {
    vec![
        [0, 0, 0, 0, 0],
        [1, 0, 0, 0, 0],
        [0, 1, 0, 0, 0],
        [0, 0, 1, 0, 0],
        [0, 0, 2, 0, 0],
        [0, 0, 0, 2, 0],
        [0, 0, 0, 4, 0],
        [0, 0, 0, 0, 1],
        [0, 0, 0, 0, 5],
        [0, 0, 0, 0, 14],
        [1, 1, 1, 3, 20],
        [1, 1, 2, 5, 9],
    ]
}

pub struct C14;

fn check_rel(v: &ly::Relation) -> Vec<Viol> {
    let mut out = vec![];
    let printed = v.to_string();
    let ctx = |w: &str| format!("lossy relation {:?} printed {:?}: {}", v, printed, w);
    match ly::Relation::from_str(&printed) {
        Ok(back) => {
            if back != *v {
                out.push(viol("lossy-roundtrip", ctx(&format!("parses back as {:?}", back))));
            }
        }
        Err(e) => out.push(viol("lossy-roundtrip", ctx(&format!("does not parse back: {}", e)))),
    }
    match ll::Relation::from_str(&printed) {
        Ok(l) => {
            if read_ll_rel(&l) != read_ly_rel(v) {
                out.push(viol("lossless-reads-same", ctx(&format!("lossless reads {:?}", read_ll_rel(&l)))));
            }
        }
        Err(e) => out.push(viol("lossless-reads-same", ctx(&format!("lossless reader rejects: {}", e.replace('\n', "; "))))),
    }
    // the same value assembled through the builder
    let mut b = ly::Relation::build(&v.name);
    if let Some(q) = &v.archqual {
        b = b.archqual(q);
    }
    if let Some(a) = &v.architectures {
        b = b.architectures(a.iter().map(|x| x.as_str()).collect());
    }
    if let Some((c, ver)) = &v.version {
        b = b.version(c.clone(), &ver.to_string());
    }
    for g in &v.profiles {
        b = b.profile(g.clone());
    }
    let built = b.build();
    if built != *v || built.to_string() != printed {
        out.push(viol("builder-builds-same", ctx(&format!("RelationBuilder gives {:?} printing {:?}", built, built.to_string()))));
    }
    let conv = ll::Relation::from(v.clone());
    if conv.to_string() != printed {
        out.push(viol("conversion-prints-same", ctx(&format!("lossless::Relation::from prints {:?}", conv.to_string()))));
    }
    if read_ll_rel(&conv) != read_ly_rel(v) {
        out.push(viol("conversion-reads-same", ctx(&format!("the converted lossless relation reports {:?}", read_ll_rel(&conv)))));
    }
    let back = ly::Relation::from(conv);
    if back != *v {
        out.push(viol("conversion-roundtrip", ctx(&format!("lossy -> lossless -> lossy gives {:?}", back))));
    }
    out
}

fn check_field(rs: &ly::Relations) -> Vec<Viol> {
    let mut out = vec![];
    let printed = rs.to_string();
    let ctx = |w: &str| format!("lossy relations {:?} printed {:?}: {}", rs, printed, w);
    match ly::Relations::from_str(&printed) {
        Ok(back) => {
            if back != *rs {
                out.push(viol("lossy-roundtrip", ctx(&format!("parses back as {:?}", back))));
            }
        }
        Err(e) => out.push(viol("lossy-roundtrip", ctx(&format!("does not parse back: {}", e)))),
    }
    match ll::Relations::from_str(&printed) {
        Ok(l) => {
            if read_ll(&l).entries != read_ly(rs).entries {
                out.push(viol("lossless-reads-same", ctx(&format!("lossless reads {:?}", read_ll(&l)))));
            }
        }
        Err(e) => out.push(viol("lossless-reads-same", ctx(&format!("lossless reader rejects: {}", e.replace('\n', "; "))))),
    }
    // Entry <-> Vec<lossy::Relation>
    for e in &rs.0 {
        let entry = ll::Entry::from(e.clone());
        let want = e.iter().map(|r| r.to_string()).collect::<Vec<_>>().join(" | ");
        if entry.to_string() != want {
            out.push(viol("entry-conversion-prints-same", ctx(&format!("Entry::from prints {:?}, expected {:?}", entry.to_string(), want))));
        }
        let back: Vec<ly::Relation> = entry.into();
        if back != *e {
            out.push(viol("entry-conversion-roundtrip", ctx(&format!("Entry -> Vec gives {:?}", back))));
        }
    }
    out
}

impl Prop for C14 {
    type Case = C14Case;
    fn id(&self) -> &'static str {
        "C14"
    }
    fn level(&self) -> &'static str {
        "exploration"
    }
    fn rule(&self, _t: Tier) -> String {
        "full product of lossy Relation values over 2 names x {no, 'any'} qualifier x {none, >= 1, << 2:1.0-1, = 1.0~rc1, <= 1, >> 1} x 7 architecture lists (None, empty, 1-2 plain, 1-2 negated) x 71 profile lists (no group; every one-group shape of 1-3 terms with every negation pattern; two groups) (10224 values, each also assembled through RelationBuilder), and every Relations value of <= 2 entries x <= 2 alternatives (thorough: also 3 entries x <= 2 alternatives over a 6-element subset) over a 12-element subset; each is printed, re-read by both readers, converted lossy->lossless->lossy and Entry<->Vec; all cases distinct; non-trivial = value with at least one optional part or more than one relation".into()
    }
    fn bounds(&self, t: Tier) -> Value {
        json!({"single_relations": menus().iter().product::<usize>(), "subset": subset().len(), "max_entries": t.pick(2, 3), "max_alternatives": 2})
    }
    fn assumptions(&self) -> Vec<String> {
        vec!["component strings outside the menus are not explored; an empty architecture list (Some(vec![])) is treated as a valid component".into()]
    }
    fn n_shards(&self, t: Tier) -> usize {
        2 + t.pick(2, 3)
    }
    fn explore(&self, t: Tier, shard: usize, f: &mut dyn FnMut(&C14Case) -> Verdict) {
        if shard == 1 + t.pick(2, 3) {
            // values obtained by parsing: the full product of relgen's relation parts in three layouts
            // (canonical; blanks inside all brackets; wide blanks between the parts)
            product(&[3, 3, 6, crate::relgen::VERS.len(), crate::relgen::ARCHS.len(), 8], &mut |pv| {
                for ws in 0..3 {
                    let mut v = vec![0usize; REL_SLOTS];
                    v[..6].copy_from_slice(pv);
                    match ws {
                        1 => {
                            v[11] = 1;
                            v[12] = 1;
                        }
                        2 => {
                            v[6] = 2;
                            v[8] = 2;
                            v[9] = 2;
                        }
                        _ => {}
                    }
                    if render_rel(&v, true).is_some() {
                        f(&C14Case { field: vec![], parsed: Some(v) });
                    }
                }
            });
            return;
        }
        if shard == 0 {
            product(&menus(), &mut |v| {
                f(&C14Case { field: vec![vec![[v[0], v[1], v[2], v[3], v[4]]]], parsed: None });
            });
            return;
        }
        // fields with `shard` entries, each of 1..=2 alternatives over the subset
        let mut sub = subset();
        let entries = shard;
        if shard == 1 {
            // the empty value, and one entry of three alternatives
            f(&C14Case { field: vec![], parsed: None });
            let n = sub.len();
            product(&[n, n, n], &mut |v| {
                f(&C14Case { field: vec![vec![sub[v[0]], sub[v[1]], sub[v[2]]]], parsed: None });
            });
        }
        if entries >= 3 {
            // three-entry fields: a 6-element subset (the full 12 would be 2.4e7 fields in one shard)
            sub = vec![sub[0], sub[2], sub[4], sub[6], sub[8], sub[10]];
        }
        let n = sub.len();
        // each entry: (alts count 1|2, idx0, idx1)
        let mut m = vec![];
        for _ in 0..entries {
            m.extend([2, n, n]);
        }
        product(&m, &mut |v| {
            let mut field = vec![];
            for e in 0..entries {
                let (two, i0, i1) = (v[e * 3] == 1, v[e * 3 + 1], v[e * 3 + 2]);
                if !two && i1 != 0 {
                    return; // inactive slot
                }
                let mut alts = vec![sub[i0]];
                if two {
                    alts.push(sub[i1]);
                }
                field.push(alts);
            }
            if field.len() == 1 && field[0].len() == 1 {
                return; // covered by shard 0
            }
            f(&C14Case { field, parsed: None });
        });
    }
    fn check(&self, c: &C14Case, st: &mut Stats) -> Vec<Viol> {
        let r = guard(100_000, || {
            if let Some(v) = &c.parsed {
                let Some((text, _)) = render_rel(v, true) else { return vec![] };
                return match ly::Relation::from_str(&text) {
                    Ok(val) => check_rel(&val),
                    Err(_) => vec![], // acceptance of well-formed text is C10's clause
                };
            }
            if c.field.len() == 1 && c.field[0].len() == 1 {
                check_rel(&mk(&c.field[0][0]))
            } else {
                let rs = ly::Relations(c.field.iter().map(|e| e.iter().map(mk).collect()).collect());
                check_field(&rs)
            }
        });
        if c.parsed.is_some() || c.field.iter().flatten().any(|v| v[1..].iter().any(|x| *x != 0)) || c.field.iter().flatten().count() > 1 {
            st.nontrivial += 1;
        }
        match r {
            Ok(vs) => {
                if vs.is_empty() {
                    st.outcome("ok");
                }
                vs
            }
            Err(p) => vec![viol("panic", format!("{:?}: {}", c, panic_detail(&p)))],
        }
    }
    fn shrinks(&self, c: &C14Case) -> Vec<C14Case> {
        let mut out = vec![];
        for e in 0..c.field.len() {
            if c.field.len() > 1 {
                let mut f = c.field.clone();
                f.remove(e);
                out.push(C14Case { field: f, parsed: None });
            }
            for a in 0..c.field[e].len() {
                if c.field[e].len() > 1 {
                    let mut f = c.field.clone();
                    f[e].remove(a);
                    out.push(C14Case { field: f, parsed: None });
                }
                for s in 0..5 {
                    if c.field[e][a][s] != 0 {
                        let mut f = c.field.clone();
                        f[e][a][s] = 0;
                        out.push(C14Case { field: f, parsed: None });
                    }
                }
            }
        }
        out
    }
    fn snippet(&self, c: &C14Case, v: &Viol) -> String {
        let rs = ly::Relations(c.field.iter().map(|e| e.iter().map(mk).collect()).collect());
        format!("// C14 replay: lossy value {:?}\n// prints as {:?}\n// clause {}: {}\n", rs, rs.to_string(), v.clause, v.detail.replace('\n', "\\n"))
    }
    fn required_outcomes(&self) -> Vec<&'static str> {
        vec!["ok"]
    }
}
