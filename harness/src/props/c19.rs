//! C19 — PGP clear-sign unwrapping returns exactly the payload or a specific error (DESIGN 3/C19).
//! E4: for every message of a bounded family, every truncation point and every trailing addition.

use crate::core::*;
use debian_control::pgp::{strip_pgp_signature, Error};
use serde::{Deserialize, Serialize};
use serde_json::{json, Value};

pub const HEADERS: [&str; 2] = ["Hash: SHA256", "Hash: SHA512"];
/// payload line templates: plain lines plus every marker wrapped in the neighbouring non-dash contexts
/// (prefix 'x', leading blank / tab, trailing blank) -- none begins with '-'
pub const PAYLOAD: [&str; 20] = [
    "A: b\r",
    "\r",
    "",
    "A: b",
    " x",
    "Hash: z",
    "é",
    "x-----BEGIN PGP SIGNATURE-----",
    " -----BEGIN PGP SIGNATURE-----",
    "\t-----BEGIN PGP SIGNATURE-----",
    " -----BEGIN PGP SIGNATURE----- ",
    "x-----END PGP SIGNATURE-----",
    " -----END PGP SIGNATURE-----",
    " -----BEGIN PGP SIGNED MESSAGE-----",
    "x-----BEGIN PGP SIGNED MESSAGE-----",
    // multi-byte characters at every small byte offset (a byte-indexed prefix test cuts inside them), and NUL
    "\u{20ac}uro",
    "a\u{20ac}",
    "\u{1f600}",
    "ab\u{1d400}",
    "\u{0}x",
];
pub const SIGLINES: [&str; 6] = ["iQ", "=ab", "x y", "", " -----END PGP SIGNATURE-----", "x-----BEGIN PGP SIGNATURE-----"];
/// first lines of texts that are NOT signed messages although they look like armour
pub const UNSIGNED_FIRST: [&str; 11] = ["-----BEGIN PGP SIGNATURE-----", "-----END PGP SIGNATURE-----", "-----BEGIN PGP SIGNED MESSAGE----- ", "-----BEGIN PGP SIGNED MESSAGE-----x",
    // near misses of the marker: another letter case, a dash fewer / more at either end, two blanks inside, another armour type
    "-----begin pgp signed message-----", "----BEGIN PGP SIGNED MESSAGE-----", "------BEGIN PGP SIGNED MESSAGE-----", "-----BEGIN PGP SIGNED MESSAGE----", "-----BEGIN PGP SIGNED MESSAGE------",
    "-----BEGIN PGP  SIGNED MESSAGE-----", "-----BEGIN PGP MESSAGE-----"];
pub const APPENDS: [&str; 4] = ["x\n", "\n", " ", "-----BEGIN PGP SIGNATURE-----\n"];
const M_BEGIN: &str = "-----BEGIN PGP SIGNED MESSAGE-----";
const M_SIG: &str = "-----BEGIN PGP SIGNATURE-----";
const M_END: &str = "-----END PGP SIGNATURE-----";

#[derive(Clone, Serialize, Deserialize, PartialEq, Debug)]
pub enum Fault {
    None,
    /// keep only the first n lines
    CutLines(usize),
    /// keep only the first n bytes
    CutBytes(usize),
    Append(usize),
    /// not a signed message at all: the payload alone
    Unsigned,
    /// not a signed message: UNSIGNED_FIRST[k] as first line, then the payload
    UnsignedFirst(usize),
}

#[derive(Clone, Serialize, Deserialize, PartialEq, Debug)]
pub struct C19Case {
    pub headers: Vec<usize>,
    pub payload: Vec<usize>,
    pub sig: Vec<usize>,
    pub fault: Fault,
}

struct Msg {
    text: String,
    payload: String,
    signature: String,
    /// offset just after the blank line that ends the armour headers
    after_blank: usize,
    /// offset of the BEGIN SIGNATURE marker line
    sig_marker: usize,
    /// offset of the END marker line
    end_marker: usize,
    n_lines: usize,
}

/// template `i` of a menu; indices beyond the menu are one long line of 255 / 256 / 257 / 65535 / 65536 / 65537 characters
/// (a length kept in a narrow integer wraps there)
fn tmpl(menu: &[&str], i: usize, fill: char) -> String {
    match menu.get(i) {
        Some(t) => t.to_string(),
        None => fill.to_string().repeat(crate::props::c01::WIDTH_LIMITS[(i - menu.len()) % crate::props::c01::WIDTH_LIMITS.len()]),
    }
}

fn wrap(c: &C19Case) -> Msg {
    let mut text = String::new();
    text.push_str(M_BEGIN);
    text.push('\n');
    for h in &c.headers {
        text.push_str(&format!("{}{}", if *h < HEADERS.len() { "" } else { "Comment: " }, tmpl(&HEADERS, *h, 'h')));
        text.push('\n');
    }
    text.push('\n');
    let after_blank = text.len();
    let mut payload = String::new();
    for p in &c.payload {
        payload.push_str(&tmpl(&PAYLOAD, *p, 'v'));
        payload.push('\n');
    }
    text.push_str(&payload);
    let sig_marker = text.len();
    text.push_str(M_SIG);
    text.push('\n');
    let mut signature = String::new();
    for s in &c.sig {
        text.push_str(&tmpl(&SIGLINES, *s, 'Q'));
        text.push('\n');
        signature.push_str(&tmpl(&SIGLINES, *s, 'Q'));
    }
    let end_marker = text.len();
    text.push_str(M_END);
    text.push('\n');
    let n_lines = 2 + c.headers.len() + c.payload.len() + 1 + c.sig.len() + 1;
    Msg { text, payload, signature, after_blank, sig_marker, end_marker, n_lines }
}

/// Reference verdict for the first `b` bytes of the wrapped message, from construction offsets only.
fn reference_prefix(m: &Msg, b: usize) -> Result<(String, Option<String>), Error> {
    let prefix = &m.text[..b];
    if b < M_BEGIN.len() {
        return Ok((prefix.to_string(), None)); // first line is not the marker: not a signed message
    }
    if b < m.after_blank {
        return Err(Error::MissingPayload);
    }
    if b < m.sig_marker + M_SIG.len() {
        return Err(Error::MissingPgpSignature);
    }
    if b < m.end_marker + M_END.len() {
        return Err(Error::TruncatedPgpSignature);
    }
    Ok((m.payload.clone(), Some(m.signature.clone())))
}

fn line_prefix_len(text: &str, n: usize) -> usize {
    text.split_inclusive('\n').take(n).map(|l| l.len()).sum()
}

pub struct C19;

fn seqs(k: usize, max: usize) -> Vec<Vec<usize>> {
    let mut out = vec![vec![]];
    let mut frontier = vec![vec![]];
    for _ in 0..max {
        let mut next = vec![];
        for s in &frontier {
            for i in 0..k {
                let mut t: Vec<usize> = s.clone();
                t.push(i);
                next.push(t);
            }
        }
        out.extend(next.iter().cloned());
        frontier = next;
    }
    out
}

impl Prop for C19 {
    type Case = C19Case;
    fn id(&self) -> &'static str {
        "C19"
    }
    fn level(&self) -> &'static str {
        "fault_enumeration"
    }
    fn rule(&self, _t: Tier) -> String {
        "message family = (a) one line of 255 / 256 / 257 / 65535 / 65536 / 65537 characters as payload line, signature line or armour header, with every line cut; (b) three and four signature lines and three armour headers with every line cut; (c) every sequence of <= 2 armour headers x every sequence of <= 3 (thorough 4) payload lines from 20 templates (two ending in CR, empty, deb822, indented, header look-alike, two-, three- and four-byte characters at byte offsets 0, 1 and 2, NUL, and all three markers behind a letter / blank / tab or followed by a blank) x every sequence of <= 2 signature lines from 6 (incl. an empty line and marker look-alikes); faults, ALL of them per message: no fault, truncation after every line (0..all), every trailing addition from 4, the payload alone and behind 4 armour-like first lines that are not the signed-message marker (unsigned passthrough), and for the sub-family with <= 1 header, <= 2 payload lines, <= 1 signature line every BYTE prefix; the expected result is computed from the construction offsets, never by re-scanning; all cases distinct; non-trivial = every case with a fault".into()
    }
    fn bounds(&self, t: Tier) -> Value {
        json!({"headers": HEADERS, "payload_lines": PAYLOAD, "signature_lines": SIGLINES, "appends": APPENDS, "max_headers": 2, "max_payload_lines": t.pick(3, 4), "max_signature_lines": 2})
    }
    fn assumptions(&self) -> Vec<String> {
        vec!["payload lines are LF-terminated and never begin with '-' (no dash-escaping needed), as the statement requires".into()]
    }
    fn n_shards(&self, _t: Tier) -> usize {
        seqs(HEADERS.len(), 2).len() * seqs(SIGLINES.len(), 2).len()
    }
    fn explore(&self, t: Tier, shard: usize, f: &mut dyn FnMut(&C19Case) -> Verdict) {
        let hs = seqs(HEADERS.len(), 2);
        let ss = seqs(SIGLINES.len(), 2);
        let headers = hs[shard / ss.len()].clone();
        let sig = ss[shard % ss.len()].clone();
        // one long line (lengths around the u8 / u16 limits) as payload line, as signature line, as armour header
        if shard == 0 {
            let n = crate::props::c01::WIDTH_LIMITS.len();
            for j in 0..n {
                for (h, p, sg) in [(vec![], vec![3, PAYLOAD.len() + j, 3], vec![0]), (vec![], vec![3], vec![0, SIGLINES.len() + j]), (vec![HEADERS.len() + j], vec![3], vec![0])] {
                    let base = C19Case { headers: h, payload: p, sig: sg, fault: Fault::None };
                    let m = wrap(&base);
                    f(&base);
                    for nl in 0..m.n_lines {
                        f(&C19Case { fault: Fault::CutLines(nl), ..base.clone() });
                    }
                    f(&C19Case { fault: Fault::Append(0), ..base.clone() });
                }
            }
        }
        // three and four signature lines, three armour headers (over the first three / two templates), every line cut
        if shard == 0 {
            let mut long_sigs: Vec<Vec<usize>> = vec![];
            for n in [3usize, 4] {
                crate::kdev::product(&vec![3usize; n], &mut |v| long_sigs.push(v.to_vec()));
            }
            let mut long_heads: Vec<Vec<usize>> = vec![];
            crate::kdev::product(&[2, 2, 2], &mut |v| long_heads.push(v.to_vec()));
            for (h, sg) in long_sigs.iter().map(|sg| (vec![], sg.clone())).chain(long_heads.iter().map(|h| (h.clone(), vec![0usize]))) {
                let base = C19Case { headers: h, payload: vec![3, 0], sig: sg, fault: Fault::None };
                let m = wrap(&base);
                f(&base);
                for nl in 0..m.n_lines {
                    f(&C19Case { fault: Fault::CutLines(nl), ..base.clone() });
                }
                f(&C19Case { fault: Fault::Append(1), ..base.clone() });
            }
        }
        for payload in seqs(PAYLOAD.len(), t.pick(3, 4)) {
            let base = C19Case { headers: headers.clone(), payload: payload.clone(), sig: sig.clone(), fault: Fault::None };
            let m = wrap(&base);
            f(&base);
            if headers.is_empty() && sig.is_empty() {
                f(&C19Case { fault: Fault::Unsigned, ..base.clone() });
                for k in 0..UNSIGNED_FIRST.len() {
                    f(&C19Case { fault: Fault::UnsignedFirst(k), ..base.clone() });
                }
            }
            for n in 0..m.n_lines {
                f(&C19Case { fault: Fault::CutLines(n), ..base.clone() });
            }
            for a in 0..APPENDS.len() {
                f(&C19Case { fault: Fault::Append(a), ..base.clone() });
            }
            if headers.len() <= 1 && payload.len() <= 2 && sig.len() <= 1 {
                for b in 0..m.text.len() {
                    if m.text.is_char_boundary(b) {
                        f(&C19Case { fault: Fault::CutBytes(b), ..base.clone() });
                    }
                }
            }
        }
    }
    fn check(&self, c: &C19Case, st: &mut Stats) -> Vec<Viol> {
        let m = wrap(c);
        let (input, want): (String, Result<(String, Option<String>), Error>) = match &c.fault {
            Fault::None => (m.text.clone(), Ok((m.payload.clone(), Some(m.signature.clone())))),
            Fault::CutLines(n) => {
                let b = line_prefix_len(&m.text, *n);
                (m.text[..b].to_string(), reference_prefix(&m, b))
            }
            Fault::CutBytes(b) => {
                if *b > m.text.len() || !m.text.is_char_boundary(*b) {
                    return vec![];
                }
                (m.text[..*b].to_string(), reference_prefix(&m, *b))
            }
            Fault::Append(a) => (format!("{}{}", m.text, APPENDS[*a]), Err(Error::JunkAfterPgpSignature)),
            Fault::Unsigned => (m.payload.clone(), Ok((m.payload.clone(), None))),
            Fault::UnsignedFirst(k) => {
                let t = format!("{}\n{}", UNSIGNED_FIRST[*k], m.payload);
                (t.clone(), Ok((t, None)))
            }
        };
        if c.fault != Fault::None {
            st.nontrivial += 1;
        }
        match guard(budget_for(input.len()), || strip_pgp_signature(&input)) {
            Ok(got) => {
                st.outcome(match &got {
                    Ok((_, Some(_))) => "unwrapped",
                    Ok((_, None)) => "passthrough",
                    Err(Error::MissingPayload) => "missing-payload",
                    Err(Error::MissingPgpSignature) => "missing-signature",
                    Err(Error::TruncatedPgpSignature) => "truncated-signature",
                    Err(Error::JunkAfterPgpSignature) => "junk-after-signature",
                });
                if got != want {
                    let clause = match (&got, &want) {
                        (Ok((_, Some(_))), Err(_)) => "faulty-message-accepted",
                        (Ok(_), Ok(_)) => "payload-and-signature-exact",
                        (Err(_), Ok(_)) => "valid-message-rejected",
                        _ => "matching-error",
                    };
                    vec![viol(clause, format!("input {}: got {}, expected {}", crate::strings::brief(&input), crate::strings::brief(&format!("{:?}", got)), crate::strings::brief(&format!("{:?}", want))))]
                } else {
                    vec![]
                }
            }
            Err(p) => vec![viol("panic", format!("input {}: {}", crate::strings::brief(&input), panic_detail(&p)))],
        }
    }
    fn shrinks(&self, c: &C19Case) -> Vec<C19Case> {
        let mut out = vec![];
        for i in 0..c.headers.len() {
            let mut x = c.clone();
            x.headers.remove(i);
            out.push(x);
        }
        for i in 0..c.payload.len() {
            let mut x = c.clone();
            x.payload.remove(i);
            out.push(x);
        }
        for i in 0..c.sig.len() {
            let mut x = c.clone();
            x.sig.remove(i);
            out.push(x);
        }
        // removing lines shifts truncation points: also try the same fault one line/byte earlier
        if let Fault::CutLines(n) = c.fault {
            if n > 0 {
                for x in out.clone() {
                    out.push(C19Case { fault: Fault::CutLines(n - 1), ..x });
                }
            }
        }
        out
    }
    fn snippet(&self, c: &C19Case, v: &Viol) -> String {
        format!("// C19 replay: {:?}\n// wrapped message: {}\n// clause {}: {}\n", c, crate::strings::brief(&wrap(c).text), v.clause, v.detail.replace('\n', "\\n"))
    }
    fn required_outcomes(&self) -> Vec<&'static str> {
        vec!["unwrapped", "passthrough", "missing-payload", "missing-signature", "truncated-signature", "junk-after-signature"]
    }
}
