//! C20 — typed lossy documents are stable under print/reparse and match the lossless view (DESIGN 3/C20).

use crate::core::*;
use crate::kdev::*;
use crate::typed::*;
use deb822_lossless::lossy;
use deb822_lossless::{Deb822, FromDeb822Paragraph, ToDeb822Paragraph};
use serde::{Deserialize, Serialize};
use serde_json::{json, Value};
use std::str::FromStr;

type Paras = Vec<(&'static str, Items)>;

pub struct DocKind {
    pub id: &'static str,
    /// possible paragraph sequences (spec ids), well-formed ones
    pub shapes: fn() -> Vec<Vec<&'static str>>,
    /// parse; on success the printed form and, per paragraph in the value's own order, (spec id, re-serialised items)
    pub parse: fn(&str) -> Result<(String, Paras), String>,
    /// equality of the values parsed from two texts
    pub equal: fn(&str, &str) -> Result<bool, String>,
    /// the order in which the value holds the paragraphs of a well-formed document, given the file order of spec ids
    pub value_order: fn(&[&'static str]) -> Vec<usize>,
    /// structurally invalid documents (text) that must be rejected
    pub invalid: fn() -> Vec<String>,
    /// may a comment line precede the first paragraph? (a copyright file must START with its Format field)
    pub leading_comment_ok: bool,
    /// documented synonyms: (alias field, canonical field of the first paragraph's struct); the canonical field wins when both are present
    pub aliases: &'static [(&'static str, &'static str)],
}

thread_local! {
    /// Debug rendering of the typed value produced by the last parse on this thread (the only view of a typed value that
    /// shows where one list element ends and the next begins: the printed paragraph joins them again)
    static LAST_DEBUG: std::cell::RefCell<String> = std::cell::RefCell::new(String::new());
}
fn note_debug<T: std::fmt::Debug>(v: &T) {
    LAST_DEBUG.with(|d| *d.borrow_mut() = format!("{:?}", v));
}
fn last_debug() -> String {
    LAST_DEBUG.with(|d| d.borrow().clone())
}

fn items_of<T: ToDeb822Paragraph<lossy::Paragraph>>(v: &T) -> Items {
    let p: lossy::Paragraph = v.to_paragraph();
    p.all_items()
}
fn print_of<T: ToDeb822Paragraph<lossy::Paragraph>>(v: &T) -> String {
    let p: lossy::Paragraph = v.to_paragraph();
    p.to_string()
}
fn identity_order(ids: &[&'static str]) -> Vec<usize> {
    (0..ids.len()).collect()
}

const SRC: &str = "lossy::control::Source";
const BIN: &str = "lossy::control::Binary";
const CH: &str = "lossy::copyright::Header";
const CF: &str = "lossy::copyright::FilesParagraph";
const CL: &str = "lossy::copyright::LicenseParagraph";
const REPO: &str = "apt_sources::Repository";

fn control_parse(t: &str) -> Result<(String, Paras), String> {
    let c = debian_control::lossy::Control::from_str(t)?;
    note_debug(&""); // (the control types have no Debug: no view of their element boundaries)
    let mut ps: Paras = vec![(SRC, items_of(&c.source))];
    for b in &c.binaries {
        ps.push((BIN, items_of(b)));
    }
    Ok((c.to_string(), ps))
}
fn by_print(parse: fn(&str) -> Result<(String, Paras), String>, a: &str, b: &str) -> Result<bool, String> {
    let (pa, ia) = parse(a)?;
    let (pb, ib) = parse(b)?;
    Ok(pa == pb && ia == ib)
}
fn control_shapes() -> Vec<Vec<&'static str>> {
    vec![vec![SRC], vec![SRC, BIN], vec![BIN, SRC], vec![SRC, BIN, BIN], vec![BIN, SRC, BIN], vec![BIN, BIN, SRC], vec![SRC, BIN, BIN, BIN], vec![BIN, SRC, BIN, BIN]]
}
fn control_order(ids: &[&'static str]) -> Vec<usize> {
    let mut v: Vec<usize> = ids.iter().enumerate().filter(|(_, x)| **x == SRC).map(|(i, _)| i).collect();
    v.extend(ids.iter().enumerate().filter(|(_, x)| **x == BIN).map(|(i, _)| i));
    v
}
fn control_invalid() -> Vec<String> {
    vec![
        "Package: a\nArchitecture: any\n".into(),
        "Source: a\n\nSource: b\n".into(),
        "Source: a\n\nPackage: b\n\nSource: c\n".into(),
        "Source: a\n\nX-Other: 1\n".into(),
        "X-Other: 1\n".into(),
        "".into(),
        // a paragraph of neither kind in front and in the middle; near misses of the distinguishing fields
        "X-Other: 1\n\nSource: a\n\nPackage: b\n".into(),
        "Source: a\n\nX-Other: 1\n\nPackage: b\n".into(),
        "Source: a\n\nPackage-Type: deb\nArchitecture: any\n".into(),
        "X-Source: s\n\nPackage: a\n".into(),
        "Sources: s\n".into(),
    ]
}
/// every structurally invalid text also without its final newline and behind a comment line
fn with_arrivals(v: Vec<String>) -> Vec<String> {
    let mut out = vec![];
    for t in v {
        if let Some(cut) = t.strip_suffix('\n') {
            if !cut.is_empty() {
                out.push(cut.to_string());
            }
        }
        if !t.is_empty() {
            out.push(format!("# c\n{}", t));
        }
        out.push(t);
    }
    out
}

fn copyright_parse(t: &str) -> Result<(String, Paras), String> {
    let c = debian_copyright::lossy::Copyright::from_str(t)?;
    note_debug(&c);
    let mut ps: Paras = vec![(CH, items_of(&c.header))];
    for f in &c.files {
        ps.push((CF, items_of(f)));
    }
    for l in &c.licenses {
        ps.push((CL, items_of(l)));
    }
    Ok((c.to_string(), ps))
}
fn copyright_equal(a: &str, b: &str) -> Result<bool, String> {
    Ok(debian_copyright::lossy::Copyright::from_str(a)? == debian_copyright::lossy::Copyright::from_str(b)?)
}
fn copyright_shapes() -> Vec<Vec<&'static str>> {
    vec![vec![CH], vec![CH, CF], vec![CH, CL], vec![CH, CF, CL], vec![CH, CL, CF], vec![CH, CF, CF], vec![CH, CF, CL, CF], vec![CH, CL, CF, CL], vec![CH, CF, CF, CF], vec![CH, CL, CL, CL]]
}
fn copyright_order(ids: &[&'static str]) -> Vec<usize> {
    let mut v = vec![0];
    v.extend(ids.iter().enumerate().filter(|(_, x)| **x == CF).map(|(i, _)| i));
    v.extend(ids.iter().enumerate().filter(|(_, x)| **x == CL).map(|(i, _)| i));
    v
}
fn copyright_invalid() -> Vec<String> {
    let f = "Format: https://www.debian.org/doc/packaging-manuals/copyright-format/1.0/\n";
    vec![
        format!("{}\nX-Other: 1\n", f),
        "Files: *\nCopyright: c\nLicense: MIT\n".into(),
        format!("{}\nFiles: *\nCopyright: c\n", f),
        format!("{}\nFiles: *\nLicense: MIT\n", f),
        "".into(),
        "Upstream-Name: x\n".into(),
        // a paragraph of neither kind between valid ones; near misses of the distinguishing fields
        format!("{}\nX-Other: 1\n\nFiles: *\nCopyright: c\nLicense: MIT\n", f),
        format!("{}\nFiles-Excluded: x\n", f),
        format!("{}\nLicence: MIT\n text\n", f),
    ]
}

macro_rules! single_kind {
    ($fname:ident, $eqname:ident, $ty:ty, $spec:literal, from_str, display) => {
        fn $fname(t: &str) -> Result<(String, Paras), String> {
            let v = <$ty>::from_str(t).map_err(|e| e.to_string())?;
            note_debug(&v);
            Ok((v.to_string(), vec![($spec, items_of(&v))]))
        }
        fn $eqname(a: &str, b: &str) -> Result<bool, String> {
            Ok(<$ty>::from_str(a).map_err(|e| e.to_string())? == <$ty>::from_str(b).map_err(|e| e.to_string())?)
        }
    };
    ($fname:ident, $eqname:ident, $ty:ty, $spec:literal, from_str, paragraph) => {
        fn $fname(t: &str) -> Result<(String, Paras), String> {
            let v = <$ty>::from_str(t).map_err(|e| e.to_string())?;
            note_debug(&""); // (Buildinfo has no Debug: no view of its element boundaries)
            Ok((print_of(&v), vec![($spec, items_of(&v))]))
        }
        fn $eqname(a: &str, b: &str) -> Result<bool, String> {
            by_print($fname, a, b)
        }
    };
    ($fname:ident, $eqname:ident, $ty:ty, $spec:literal, from_paragraph, paragraph) => {
        fn $fname(t: &str) -> Result<(String, Paras), String> {
            let p = lossless_para(t)?;
            let v = <$ty as FromDeb822Paragraph<deb822_lossless::Paragraph>>::from_paragraph(&p)?;
            note_debug(&v);
            Ok((print_of(&v), vec![($spec, items_of(&v))]))
        }
        fn $eqname(a: &str, b: &str) -> Result<bool, String> {
            let va = <$ty as FromDeb822Paragraph<deb822_lossless::Paragraph>>::from_paragraph(&lossless_para(a)?)?;
            let vb = <$ty as FromDeb822Paragraph<deb822_lossless::Paragraph>>::from_paragraph(&lossless_para(b)?)?;
            Ok(va == vb)
        }
    };
}
single_kind!(apt_source_parse, apt_source_eq, debian_control::lossy::apt::Source, "lossy::apt::Source", from_str, display);
single_kind!(apt_package_parse, apt_package_eq, debian_control::lossy::apt::Package, "lossy::apt::Package", from_str, display);
single_kind!(apt_release_parse, apt_release_eq, debian_control::lossy::apt::Release, "lossy::apt::Release", from_paragraph, paragraph);
single_kind!(removal_parse, removal_eq, debian_control::lossy::ftpmaster::Removal, "lossy::ftpmaster::Removal", from_str, paragraph);
single_kind!(buildinfo_parse, buildinfo_eq, debian_control::lossy::buildinfo::Buildinfo, "lossy::buildinfo::Buildinfo", from_str, paragraph);
single_kind!(dep3_parse, dep3_eq, dep3::lossy::PatchHeader, "lossy::dep3::PatchHeader", from_str, display);

fn repos_parse(t: &str) -> Result<(String, Paras), String> {
    let r = apt_sources::Repositories::from_str(t)?;
    note_debug(&r);
    let ps: Paras = r.iter().map(|x| (REPO, items_of(x))).collect();
    Ok((r.to_string(), ps))
}
fn repos_equal(a: &str, b: &str) -> Result<bool, String> {
    let (ra, rb) = (apt_sources::Repositories::from_str(a)?, apt_sources::Repositories::from_str(b)?);
    Ok(ra.iter().collect::<Vec<_>>() == rb.iter().collect::<Vec<_>>())
}
fn no_invalid() -> Vec<String> {
    vec![]
}

macro_rules! one_para_shapes {
    ($name:ident, $spec:literal) => {
        fn $name() -> Vec<Vec<&'static str>> {
            vec![vec![$spec]]
        }
    };
}
one_para_shapes!(sh_apt_source, "lossy::apt::Source");
one_para_shapes!(sh_apt_package, "lossy::apt::Package");
one_para_shapes!(sh_apt_release, "lossy::apt::Release");
one_para_shapes!(sh_removal, "lossy::ftpmaster::Removal");
one_para_shapes!(sh_buildinfo, "lossy::buildinfo::Buildinfo");
one_para_shapes!(sh_dep3, "lossy::dep3::PatchHeader");
fn sh_repos() -> Vec<Vec<&'static str>> {
    vec![vec![REPO], vec![REPO, REPO], vec![REPO, REPO, REPO]]
}

pub fn kinds() -> Vec<DocKind> {
    vec![
        DocKind { id: "lossy control file", shapes: control_shapes, parse: control_parse, equal: |a, b| by_print(control_parse, a, b), value_order: control_order, invalid: control_invalid, leading_comment_ok: true, aliases: &[] },
        DocKind { id: "lossy copyright file", shapes: copyright_shapes, parse: copyright_parse, equal: copyright_equal, value_order: copyright_order, invalid: copyright_invalid, leading_comment_ok: false, aliases: &[] },
        DocKind { id: "apt Sources stanza", shapes: sh_apt_source, parse: apt_source_parse, equal: apt_source_eq, value_order: identity_order, invalid: no_invalid, leading_comment_ok: true, aliases: &[] },
        DocKind { id: "apt Packages stanza", shapes: sh_apt_package, parse: apt_package_parse, equal: apt_package_eq, value_order: identity_order, invalid: no_invalid, leading_comment_ok: true, aliases: &[] },
        DocKind { id: "apt Release stanza", shapes: sh_apt_release, parse: apt_release_parse, equal: apt_release_eq, value_order: identity_order, invalid: no_invalid, leading_comment_ok: true, aliases: &[] },
        DocKind { id: "removal record", shapes: sh_removal, parse: removal_parse, equal: removal_eq, value_order: identity_order, invalid: no_invalid, leading_comment_ok: true, aliases: &[] },
        DocKind { id: "lossy buildinfo", shapes: sh_buildinfo, parse: buildinfo_parse, equal: buildinfo_eq, value_order: identity_order, invalid: no_invalid, leading_comment_ok: true, aliases: &[] },
        DocKind { id: "DEP-3 header", shapes: sh_dep3, parse: dep3_parse, equal: dep3_eq, value_order: identity_order, invalid: no_invalid, leading_comment_ok: true, aliases: &[("From", "Author"), ("Subject", "Description")] },
        DocKind { id: "APT sources list", shapes: sh_repos, parse: repos_parse, equal: repos_equal, value_order: identity_order, invalid: no_invalid, leading_comment_ok: true, aliases: &[] },
    ]
}

#[derive(Clone, Serialize, Deserialize, PartialEq, Debug)]
pub enum C20Case {
    /// kind id, shape index, per paragraph the presence/value vector (0 absent, i+1 = valid value i), layout 0..4
    Doc { kind: String, shape: usize, vs: Vec<Vec<usize>>, layout: usize },
    /// like Doc (layout 0) with a documented alias field in the first paragraph: pair index, mode 0 = alias instead of the canonical field, 1 = both (different values), 2 = alias only plus an unrelated foreign field
    Alias { kind: String, shape: usize, vs: Vec<Vec<usize>>, pair: usize, mode: usize },
    /// like Doc, with mandatory field `field` of paragraph `para` deleted
    Missing { kind: String, shape: usize, para: usize, field: usize },
    Structural { kind: String, i: usize },
}

pub struct C20;

fn specs_of(shape: &[&'static str]) -> Option<Vec<ParaSpec>> {
    let all = crate::props::c16::all_specs();
    let mut out = vec![];
    for id in shape {
        let pos = all.iter().position(|s| s.id == *id)?;
        // ParaSpec is not Clone: rebuild by taking from a fresh list
        let mut fresh = crate::props::c16::all_specs();
        out.push(fresh.swap_remove(pos));
    }
    Some(out)
}

/// the distinguishing field of a role must keep distinct values across paragraphs of the same role
fn render_doc(specs: &[ParaSpec], vs: &[Vec<usize>], layout: usize, leading_ok: bool) -> (String, Vec<Vec<(String, String, Norm, String)>>) {
    let mut text = String::new();
    let mut model = vec![];
    if (layout == 1 || layout == 3) && leading_ok {
        text.push_str("# leading comment\n");
    }
    for (pi, (sp, v)) in specs.iter().zip(vs.iter()).enumerate() {
        if pi > 0 {
            text.push('\n');
            if layout >= 2 {
                text.push('\n');
            }
            if layout == 3 {
                text.push_str("# between\n");
            }
        }
        let mut fields = vec![];
        for (fi, (fs, x)) in sp.fields.iter().zip(v.iter()).enumerate() {
            if *x == 0 {
                continue;
            }
            let val = fs.valid[(*x - 1) % fs.valid.len()];
            if layout == 1 && fi == 1 {
                text.push_str("# a field comment\n");
            }
            if layout == 7 && val.contains('\n') {
                // a multi-line value that starts on the line after the field name (the usual form of Package-List,
                // Files, Checksums-*, Tag, ... in APT indices)
                text.push_str(&format!("{}:\n", fs.name));
                for l in val.split('\n') {
                    text.push_str(&format!(" {}\n", l));
                }
            } else {
                text.push_str(&render_para(&[(fs.name, val)]));
            }
            fields.push((fs.name.to_string(), val.to_string(), fs.norm, fs.name.to_string()));
        }
        model.push(fields);
    }
    if layout == 2 {
        text.push('\n');
    }
    match layout {
        // the document does not end in a newline
        4 => {
            text.pop();
        }
        // no blank after the colon, continuation lines indented with a tab
        5 => {
            text = text
                .split_inclusive('\n')
                .map(|l| {
                    if let Some(rest) = l.strip_prefix(' ') {
                        format!("\t{}", rest)
                    } else if l.starts_with('#') {
                        l.to_string()
                    } else {
                        l.replacen(": ", ":", 1)
                    }
                })
                .collect();
        }
        // blank lines in front of the first paragraph
        6 if leading_ok => {
            text = format!("\n\n{}", text);
        }
        _ => {}
    }
    (text, model)
}

fn check_doc(kind: &DocKind, shape: &[&'static str], vs: &[Vec<usize>], layout: usize, alias: Option<(usize, usize)>) -> Vec<Viol> {
    let mut out = vec![];
    let Some(specs) = specs_of(shape) else { return vec![viol("harness", format!("missing field table for {:?}", shape))] };
    let mut vs: Vec<Vec<usize>> = vs.to_vec();
    let mut alias_line: Option<(String, String, String)> = None; // (alias name, alias value, canonical name)
    if let Some((pair, mode)) = alias {
        let Some((al, canon)) = kind.aliases.get(pair) else { return vec![] };
        let Some(ci) = specs[0].fields.iter().position(|f| f.name == *canon) else { return vec![] };
        if mode == 1 {
            if vs[0][ci] == 0 {
                vs[0][ci] = 1;
            }
        } else {
            vs[0][ci] = 0;
        }
        alias_line = Some((al.to_string(), format!("alias value for {}", canon), canon.to_string()));
    }
    let vs = &vs[..];
    let (mut text, mut model) = render_doc(&specs, vs, layout, kind.leading_comment_ok);
    if let Some((al, aval, canon)) = &alias_line {
        // the alias line goes at the end of the first paragraph
        let first_end = text.find("\n\n").map(|i| i + 1).unwrap_or(text.len());
        let mode = alias.unwrap().1;
        let extra = if mode == 2 { format!("X-Foreign: keep\n{}: {}\n", al, aval) } else { format!("{}: {}\n", al, aval) };
        text.insert_str(first_end, &extra);
        if mode != 1 {
            // the typed value carries the alias's text under the canonical name, at the canonical field's declaration position
            let ci = specs[0].fields.iter().position(|f| f.name == canon.as_str()).unwrap();
            let pos = specs[0].fields[..ci].iter().filter(|f| model[0].iter().any(|m| m.0 == f.name)).count();
            model[0].insert(pos, (canon.clone(), aval.clone(), specs[0].fields[ci].norm, al.clone()));
        }
    }
    if model.iter().any(|p| p.is_empty()) {
        return vec![]; // a paragraph without any field is not a paragraph
    }
    let ctx = |w: &str| format!("{} {:?}: {}", kind.id, text, w);
    // the lossless reader must accept the text (else the document is not well-formed input)
    let Ok(ll) = Deb822::from_str(&text) else { return vec![viol("harness", ctx("generated document rejected by the lossless reader"))] };
    let (printed, paras) = match (kind.parse)(&text) {
        Ok(x) => x,
        Err(e) => return vec![viol("accepts-well-formed", ctx(&e))],
    };
    let ctx = |w: &str| format!("{} {:?} -> printed {:?}: {}", kind.id, text, printed, w);
    // a list-valued field must hold its items as separate elements: the value must not contain the whole list as ONE string
    // (printing joins the elements again, so this shows only in the value itself)
    let dbg = last_debug();
    for para in &model {
        for (k, v, n, _) in para {
            if !matches!(n, Norm::Words | Norm::Commas) {
                continue;
            }
            let items: Vec<String> = normalise(*n, v).into_iter().flatten().collect();
            if items.len() < 2 {
                continue;
            }
            for sep in [" ", ", ", ",", "\n"] {
                let fused = format!("{:?}", items.join(sep));
                if dbg.contains(&fused) {
                    out.push(viol("matches-lossless-view", ctx(&format!("field {}: the typed value holds the list {:?} as the single element {}", k, items, fused))));
                }
            }
        }
    }
    // roles and field-by-field agreement with the lossless view
    let order = (kind.value_order)(shape);
    let ll_paras: Vec<Items> = ll.paragraphs().map(|p| p.items().collect()).collect();
    if paras.len() != shape.len() || ll_paras.len() != shape.len() {
        out.push(viol("paragraph-roles", ctx(&format!("value holds {} paragraphs, file has {}", paras.len(), shape.len()))));
    } else {
        for (vi, fi) in order.iter().enumerate() {
            let (role, items) = &paras[vi];
            if *role != shape[*fi] {
                out.push(viol("paragraph-roles", ctx(&format!("value paragraph {} has role {}, expected {} (file paragraph {})", vi, role, shape[*fi], fi))));
                continue;
            }
            let raw = &ll_paras[*fi];
            let want: Vec<(String, Vec<Vec<String>>)> = model[*fi].iter().map(|(k, v, n, _)| (k.clone(), normalise(*n, v))).collect();
            // what the lossless reader shows must be what was written
            // (a field read through an alias is shown by the lossless reader under the alias's name)
            let shown: Vec<(String, Vec<Vec<String>>)> = model[*fi].iter().filter_map(|(mk, _, n, rawname)| raw.iter().find(|(k, _)| k == rawname).map(|(_, v)| (mk.clone(), normalise(*n, v)))).collect();
            if shown != want {
                out.push(viol("harness", ctx(&format!("lossless view {:?} differs from what was written {:?}", shown, want))));
            }
            // (the lossy paragraph model keeps an empty first line as a leading newline - C08 - which the lossless value
            // accessor does not show - C06 compares non-blank lines; it is not content)
            let got: Vec<(String, Vec<Vec<String>>)> = items.iter().map(|(k, v)| (k.clone(), model[*fi].iter().find(|(mk, _, _, _)| mk == k).map(|(_, _, n, _)| normalise(*n, v.strip_prefix('\n').unwrap_or(v))).unwrap_or_else(|| vec![vec![v.clone()]]))).collect();
            if got != want {
                out.push(viol("matches-lossless-view", ctx(&format!("paragraph {} ({}): typed value carries {:?}, the lossless reader shows {:?}", fi, role, got, want))));
            }
        }
    }
    // stable under print / reparse
    match (kind.parse)(&printed) {
        Ok((printed2, paras2)) => {
            if paras2 != paras {
                out.push(viol("reparse-equal", ctx(&format!("re-parsed value carries {:?}, first value {:?}", paras2, paras))));
            }
            if printed2 != printed {
                out.push(viol("second-print-identical", ctx(&format!("second print {:?}", printed2))));
            }
            match (kind.equal)(&text, &printed) {
                Ok(true) => {}
                Ok(false) => out.push(viol("reparse-equal", ctx("value parsed from the print is not equal to the value parsed from the text"))),
                Err(e) => out.push(viol("reparse-equal", ctx(&e))),
            }
        }
        Err(e) => out.push(viol("print-reparses", ctx(&e))),
    }
    out
}

fn base_vectors(sp: &ParaSpec, which: usize, pi: usize) -> Vec<usize> {
    // distinct values for paragraphs of the same role: paragraph index selects the value
    sp.fields.iter().map(|f| if f.mandatory || which == 1 { 1 + (pi % f.valid.len().min(2)) } else { 0 }).collect()
}

impl Prop for C20 {
    type Case = C20Case;
    fn id(&self) -> &'static str {
        "C20"
    }
    fn level(&self) -> &'static str {
        "exploration"
    }
    fn rule(&self, _t: Tier) -> String {
        "per document kind (lossy control, copyright, apt Sources / Packages / Release stanza, removal record, lossy buildinfo, DEP-3 header, APT sources list): every paragraph sequence of its shape list (source before / between / after binaries; header + Files / licence paragraphs in every order; 1-2 repositories), with every presence/value vector within k deviations (k = 1, thorough 2) of the all-mandatory and the all-present baselines over the concatenated field tables, in 8 layouts (plain; leading + field comments; two blank separators + trailing blank; comments between paragraphs; no final newline; no blank after the colon and tab-indented continuation lines; leading blank lines; multi-line values starting on the line after the field name); each document is parsed, compared field by field with the lossless reader's view, printed, re-parsed, compared and printed again; documented alias fields (DEP-3 From/Subject) instead of, next to, and together with a foreign field next to the canonical field; every mandatory field deleted in turn and every structurally invalid variant must be rejected; non-trivial = all".into()
    }
    fn bounds(&self, t: Tier) -> Value {
        json!({"kinds": kinds().iter().map(|k| json!({"id": k.id, "shapes": (k.shapes)().len(), "invalid_variants": (k.invalid)().len()})).collect::<Vec<_>>(), "k": t.pick(1, 2), "layouts": 8})
    }
    fn assumptions(&self) -> Vec<String> {
        vec![
            "field tables (typed_tables.rs) are hand-written; collections that are hashed internally (Types, Environment) also carry several elements, written in the sorted order in which they are printed".into(),
            "types without Display are printed through to_paragraph::<lossy::Paragraph>()".into(),
        ]
    }
    fn n_shards(&self, _t: Tier) -> usize {
        kinds().iter().map(|k| (k.shapes)().len()).sum::<usize>() + 1
    }
    fn explore(&self, t: Tier, shard: usize, f: &mut dyn FnMut(&C20Case) -> Verdict) {
        let ks = kinds();
        let mut idx = shard;
        for kind in &ks {
            let shapes = (kind.shapes)();
            if idx >= shapes.len() {
                idx -= shapes.len();
                continue;
            }
            let shape = &shapes[idx];
            let Some(specs) = specs_of(shape) else { return };
            let lens: Vec<usize> = specs.iter().map(|s| s.fields.len()).collect();
            let mut seen = std::collections::HashSet::new();
            for which in 0..2 {
                let base: Vec<Vec<usize>> = specs.iter().enumerate().map(|(pi, sp)| base_vectors(sp, which, pi)).collect();
                let flat_base: Vec<usize> = base.iter().flatten().copied().collect();
                let flat_fields: Vec<&FieldSpec> = specs.iter().flat_map(|s| s.fields.iter()).collect();
                let choices = |i: usize| -> Vec<usize> {
                    let fld = flat_fields[i];
                    let mut all: Vec<usize> = (0..=fld.valid.len()).collect();
                    if fld.mandatory {
                        all.retain(|x| *x != 0);
                    }
                    all.retain(|x| *x != flat_base[i]);
                    let mut v = vec![flat_base[i]];
                    v.extend(all);
                    v
                };
                let menus: Vec<usize> = (0..flat_fields.len()).map(|i| choices(i).len()).collect();
                let k = t.pick(1, 2);
                let mut emit = |dv: &[usize], f: &mut dyn FnMut(&C20Case) -> Verdict| {
                    let flat: Vec<usize> = dv.iter().enumerate().map(|(i, d)| choices(i)[*d]).collect();
                    if !seen.insert(flat.clone()) {
                        return;
                    }
                    let mut vs = vec![];
                    let mut off = 0;
                    for l in &lens {
                        vs.push(flat[off..off + l].to_vec());
                        off += l;
                    }
                    let devs = dv.iter().filter(|d| **d != 0).count();
                    for layout in 0..8 {
                        if layout > 0 && devs > 1 {
                            continue;
                        }
                        f(&C20Case::Doc { kind: kind.id.to_string(), shape: idx, vs: vs.clone(), layout });
                    }
                };
                kdev_shard(&menus, k, None, &mut |dv| emit(dv, f));
                for first in 0..menus.len() {
                    kdev_shard(&menus, k, Some(first), &mut |dv| emit(dv, f));
                }
            }
            for pair in 0..kind.aliases.len() {
                for which in 0..2 {
                    let vs: Vec<Vec<usize>> = specs.iter().enumerate().map(|(pi, sp)| base_vectors(sp, which, pi)).collect();
                    for mode in 0..3 {
                        f(&C20Case::Alias { kind: kind.id.to_string(), shape: idx, vs: vs.clone(), pair, mode });
                    }
                }
            }
            for (pi, sp) in specs.iter().enumerate() {
                for (fi, fld) in sp.fields.iter().enumerate() {
                    // deleting the Files field turns a Files paragraph into a (valid) stand-alone licence paragraph
                    if fld.mandatory && !(sp.id == CF && fld.name == "Files") {
                        f(&C20Case::Missing { kind: kind.id.to_string(), shape: idx, para: pi, field: fi });
                    }
                }
            }
            return;
        }
        for kind in &ks {
            for i in 0..with_arrivals((kind.invalid)()).len() {
                f(&C20Case::Structural { kind: kind.id.to_string(), i });
            }
        }
    }
    fn check(&self, c: &C20Case, st: &mut Stats) -> Vec<Viol> {
        st.nontrivial += 1;
        let ks = kinds();
        let r = guard(2_000_000, || match c {
            C20Case::Doc { kind, shape, vs, layout } => {
                let Some(k) = ks.iter().find(|k| k.id == kind) else { return vec![] };
                let shapes = (k.shapes)();
                let Some(sh) = shapes.get(*shape) else { return vec![] };
                check_doc(k, sh, vs, *layout, None)
            }
            C20Case::Alias { kind, shape, vs, pair, mode } => {
                let Some(k) = ks.iter().find(|k| k.id == kind) else { return vec![] };
                let shapes = (k.shapes)();
                let Some(sh) = shapes.get(*shape) else { return vec![] };
                check_doc(k, sh, vs, 0, Some((*pair, *mode)))
            }
            C20Case::Missing { kind, shape, para, field } => {
                let Some(k) = ks.iter().find(|k| k.id == kind) else { return vec![] };
                let shapes = (k.shapes)();
                let Some(sh) = shapes.get(*shape) else { return vec![] };
                let Some(specs) = specs_of(sh) else { return vec![] };
                let mut vs: Vec<Vec<usize>> = specs.iter().enumerate().map(|(pi, sp)| base_vectors(sp, 1, pi)).collect();
                vs[*para][*field] = 0;
                let (text, _) = render_doc(&specs, &vs, 0, true);
                match (k.parse)(&text) {
                    Ok(_) => vec![viol("missing-mandatory-rejected", format!("{} {:?}: accepted although paragraph {} lacks mandatory field {}", k.id, text, para, specs[*para].fields[*field].name))],
                    Err(_) => vec![],
                }
            }
            C20Case::Structural { kind, i } => {
                let Some(k) = ks.iter().find(|k| k.id == kind) else { return vec![] };
                let inv = with_arrivals((k.invalid)());
                let Some(text) = inv.get(*i) else { return vec![] };
                match (k.parse)(text) {
                    Ok(_) => vec![viol("structurally-invalid-rejected", format!("{} {:?}: accepted", k.id, text))],
                    Err(_) => vec![],
                }
            }
        });
        match r {
            Ok(vs) => {
                if vs.is_empty() {
                    st.outcome(match c {
                        C20Case::Doc { .. } => "stable",
                        C20Case::Alias { .. } => "alias-ok",
                        C20Case::Missing { .. } => "missing-rejected",
                        C20Case::Structural { .. } => "invalid-rejected",
                    });
                }
                vs
            }
            Err(p) => vec![viol("panic", format!("{:?}: {}", c, panic_detail(&p)))],
        }
    }
    fn shrinks(&self, c: &C20Case) -> Vec<C20Case> {
        match c {
            C20Case::Doc { kind, shape, vs, layout } => {
                let mut out = vec![];
                if *layout != 0 {
                    out.push(C20Case::Doc { kind: kind.clone(), shape: *shape, vs: vs.clone(), layout: 0 });
                }
                let ks = kinds();
                if let Some(specs) = ks.iter().find(|k| k.id == *kind).and_then(|k| (k.shapes)().get(*shape).cloned()).and_then(|sh| specs_of(&sh)) {
                    for pi in 0..vs.len() {
                        for fi in 0..vs[pi].len() {
                            let simplest = if specs[pi].fields[fi].mandatory { 1 } else { 0 };
                            if vs[pi][fi] != simplest {
                                let mut w = vs.clone();
                                w[pi][fi] = simplest;
                                out.push(C20Case::Doc { kind: kind.clone(), shape: *shape, vs: w, layout: *layout });
                            }
                        }
                    }
                }
                out
            }
            _ => vec![],
        }
    }
    fn snippet(&self, c: &C20Case, v: &Viol) -> String {
        format!("// C20 replay: {:?}\n// clause {}: {}\n", c, v.clause, v.detail.replace('\n', "\\n"))
    }
    fn required_outcomes(&self) -> Vec<&'static str> {
        vec!["stable", "invalid-rejected"]
    }
}
