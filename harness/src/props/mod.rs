pub mod c01;
