//! C17 — copyright lookup: last matching Files paragraph wins; DEP-5 globs and licences (DESIGN 3/C17).

use crate::core::*;
use crate::strings::SeqSpace;
use debian_copyright::lossless as ll;
use debian_copyright::lossy as ly;
use debian_copyright::License;
use serde::{Deserialize, Serialize};
use serde_json::{json, Value};
use std::path::Path;
use std::str::FromStr;

pub const PAT_TOKENS: [&str; 12] = ["a", "b", ".", "/", "+", "(", "[", "*", "?", "\\*", "\\?", "\\\\"];
pub const PATH_CHARS: [&str; 10] = ["a", "b", ".", "/", "+", "(", "[", "*", "?", "\\"];
/// second glob alphabet: the remaining regex metacharacters and a non-ASCII character
pub const PAT_TOKENS2: [&str; 13] = ["a", ")", "]", "{", "}", "^", "$", "|", "é", "-", "*", "?", "A"];
pub const PATH_CHARS2: [&str; 11] = ["a", ")", "]", "{", "}", "^", "$", "|", "é", "-", "A"];
/// (the last two are THREE patterns each: on one line with a tab and a double blank between them, and on three lines)
pub const LOOKUP_PATTERNS: [&str; 7] = ["*", "a/*", "a/b", "*.c", "?", "zz\ta/b  *.c", "zz\n a/b\n *.c"];
pub const LOOKUP_PATHS: [&str; 6] = ["a/b", "a/c.c", "x", "x.c", "a/b/c", "zz"];
const FORMAT: &str = "Format: https://www.debian.org/doc/packaging-manuals/copyright-format/1.0/\n";

#[derive(Clone, Serialize, Deserialize, PartialEq, Debug)]
pub enum C17Case {
    Glob {
        pattern: String,
        path: String,
    },
    /// files paragraphs: (pattern index 1, optional pattern index 2 + 1 (0 = none), second pattern on its own line?, licence kind 0..3)
    /// stand-alone licences: list of name indices (0 = "L0", 1 = "L1")
    Lookup {
        files: Vec<(usize, usize, bool, usize)>,
        licenses: Vec<usize>,
        path: usize,
        /// 0 plain; 1 header carries "License: L0" with text; 2 header carries "License: L1" (name only) and a Comment;
        /// 3 stand-alone licence paragraphs come before the Files paragraphs; 4 after the first Files paragraph;
        /// 5 the text does not end in a newline; 6 a comment line in front of every paragraph but the header
        #[serde(default)]
        layout: usize,
    },
    /// text that does not start with a Format field
    NotMachineReadable(usize),
}

const NOT_MR: [&str; 10] = ["", "\nFormat: x\n", "Files: *\nLicense: L\n", "This is free text.\n", " Format: x\n",
    // near misses of the Format field: a longer and a shorter name, no colon, another letter case... and the field second
    "Format-Specification: x\n\nFiles: *\nCopyright: c\nLicense: MIT\n", "Formats: x\n", "Forma: x\n", "Format x\n", "Upstream-Name: x\nFormat: x\n"];
/// licence kinds of a Files paragraph: name L0, name L1, name L0 + inline text, name L2 (no stand-alone paragraph of that name is ever generated)
const LIC_KINDS: usize = 4;

/// Reference matcher written from the statement.
pub fn glob_ref(pat: &[char], s: &[char]) -> bool {
    match pat.first() {
        None => s.is_empty(),
        Some('*') => (0..=s.len()).any(|k| glob_ref(&pat[1..], &s[k..])),
        Some('?') => !s.is_empty() && glob_ref(&pat[1..], &s[1..]),
        Some('\\') => match pat.get(1) {
            Some(c) => !s.is_empty() && s[0] == *c && glob_ref(&pat[2..], &s[1..]),
            None => false,
        },
        Some(c) => !s.is_empty() && s[0] == *c && glob_ref(&pat[1..], &s[1..]),
    }
}
fn gmatch(pattern: &str, path: &str) -> bool {
    glob_ref(&pattern.chars().collect::<Vec<_>>(), &path.chars().collect::<Vec<_>>())
}

fn check_glob(pattern: &str, path: &str) -> Vec<Viol> {
    let mut out = vec![];
    let doc = format!("{}\nFiles: {}\nCopyright: c\nLicense: L\n", FORMAT, pattern);
    let want = gmatch(pattern, path);
    match ll::Copyright::from_str(&doc) {
        Ok(c) => match c.iter_files().next() {
            Some(fp) => {
                let got = fp.matches(Path::new(path));
                if got != want {
                    out.push(viol("glob-lossless", format!("pattern {:?} path {:?}: lossless matches() = {}, DEP-5 says {}", pattern, path, got, want)));
                }
            }
            None => out.push(viol("glob-lossless", format!("pattern {:?}: no Files paragraph found", pattern))),
        },
        Err(e) => out.push(viol("glob-lossless", format!("pattern {:?}: document rejected: {}", pattern, e))),
    }
    match ly::Copyright::from_str(&doc) {
        Ok(c) => match c.files.first() {
            Some(fp) => {
                let got = fp.matches(Path::new(path));
                if got != want {
                    out.push(viol("glob-lossy", format!("pattern {:?} path {:?}: lossy matches() = {}, DEP-5 says {}", pattern, path, got, want)));
                }
            }
            None => out.push(viol("glob-lossy", format!("pattern {:?}: no Files paragraph found", pattern))),
        },
        Err(e) => out.push(viol("glob-lossy", format!("pattern {:?}: document rejected: {}", pattern, e))),
    }
    out
}

fn lic_text(kind: usize) -> (String, License) {
    match kind {
        0 => ("L0".into(), License::Name("L0".into())),
        1 => ("L1".into(), License::Name("L1".into())),
        2 => ("L0\n inline text".into(), License::Named("L0".into(), "inline text".into())),
        _ => ("L2".into(), License::Name("L2".into())),
    }
}

pub const LAYOUTS: usize = 7;

/// stand-alone licence j named by n: 0..=2 -> "L<n>" with text, 3..=5 -> "L<n-3>" without text (name and a comment only)
fn standalone_para(j: usize, n: usize) -> (String, License) {
    if n == 6 {
        // a name of several words whose first word is another licence's whole name
        return (format!("\nLicense: L0 with exception\n text of stand-alone {} (L0 with exception)\n", j), License::Named("L0 with exception".into(), format!("text of stand-alone {} (L0 with exception)", j)));
    }
    if n < 3 {
        (format!("\nLicense: L{}\n text of stand-alone {} (L{})\n", n, j, n), License::Named(format!("L{}", n), format!("text of stand-alone {} (L{})", j, n)))
    } else {
        (format!("\nLicense: L{}\nComment: stand-alone {} has no text\n", n - 3, j), License::Name(format!("L{}", n - 3)))
    }
}

fn render_lookup(files: &[(usize, usize, bool, usize)], licenses: &[usize], layout: usize) -> String {
    let mut t = String::from(FORMAT);
    match layout {
        1 => t.push_str("License: L0\n text of the header licence\n"),
        2 => t.push_str("Comment: about the package\nLicense: L1\n"),
        _ => {}
    }
    let lics = |t: &mut String| {
        for (j, n) in licenses.iter().enumerate() {
            t.push_str(&standalone_para(j, *n).0);
        }
    };
    if layout == 3 || (layout == 4 && files.is_empty()) {
        lics(&mut t);
    }
    for (i, (p1, p2, own_line, lic)) in files.iter().enumerate() {
        t.push_str("\nFiles: ");
        t.push_str(LOOKUP_PATTERNS[*p1]);
        if *p2 > 0 {
            t.push_str(if *own_line { "\n " } else { " " });
            t.push_str(LOOKUP_PATTERNS[*p2 - 1]);
        }
        t.push('\n');
        t.push_str(&format!("Copyright: holder{}\nLicense: {}\nComment: p{}\n", i, lic_text(*lic).0, i));
        if layout == 4 && i == 0 {
            lics(&mut t);
        }
    }
    if layout < 3 || layout >= 5 {
        lics(&mut t);
    }
    match layout {
        5 => {
            t.pop();
        }
        6 => t = t.replace("\n\nFiles:", "\n\n# about these files\nFiles:").replace("\n\nLicense:", "\n\n# about this licence\nLicense:"),
        _ => {}
    }
    t
}

fn check_lookup(files: &[(usize, usize, bool, usize)], licenses: &[usize], path: usize, layout: usize) -> Vec<Viol> {
    let mut out = vec![];
    let text = render_lookup(files, licenses, layout);
    let p = LOOKUP_PATHS[path];
    // reference
    let any = |pats: &str, p: &str| pats.split_whitespace().any(|x| gmatch(x, p));
    let want_idx = files.iter().enumerate().filter(|(_, (p1, p2, _, _))| any(LOOKUP_PATTERNS[*p1], p) || (*p2 > 0 && any(LOOKUP_PATTERNS[*p2 - 1], p))).map(|(i, _)| i).last();
    let standalone = |name: &str| -> Option<License> {
        licenses.iter().enumerate().map(|(j, n)| standalone_para(j, *n).1).find(|l| l.name() == Some(name))
    };
    let want_lic: Option<License> = want_idx.and_then(|i| {
        let l = lic_text(files[i].3).1;
        if l.text().is_some() {
            Some(l)
        } else {
            standalone(l.name().unwrap())
        }
    });
    let ctx = |w: &str| format!("copyright file {:?}, path {:?}: {}", text, p, w);
    // the tolerant reader and the file reader give the same answers as the strict one
    // (copyright files with at most one Files paragraph: the lookups themselves are the strict reader's business below)
    let few = files.len() <= 1;
    let strict_answer = if !few { None } else { ll::Copyright::from_str(&text).ok().map(|c| (c.find_files(Path::new(p)).and_then(|f| f.comment()), c.find_license_for_file(Path::new(p)))) };
    let relaxed_answer = if !few { None } else { ll::Copyright::from_str_relaxed(&text).ok().map(|(c, _)| (c.find_files(Path::new(p)).and_then(|f| f.comment()), c.find_license_for_file(Path::new(p)))) };
    let file_answer = if !few { None } else { crate::props::c02::with_file(&text, |path| ll::Copyright::from_file(path).ok().map(|c| (c.find_files(Path::new(p)).and_then(|f| f.comment()), c.find_license_for_file(Path::new(p))))) };
    if files.len() <= 1 && (relaxed_answer != strict_answer || file_answer != strict_answer) {
        out.push(viol("readers-agree", ctx(&format!("from_str answers {:?}, from_str_relaxed {:?}, from_file {:?}", strict_answer, relaxed_answer, file_answer))));
    }
    match ll::Copyright::from_str(&text) {
        Ok(c) => {
            let got_idx = c.find_files(Path::new(p)).and_then(|fp| fp.comment()).and_then(|s| s.trim_start_matches('p').parse::<usize>().ok());
            if got_idx != want_idx {
                out.push(viol("last-match-wins-lossless", ctx(&format!("lossless find_files -> paragraph {:?}, expected {:?}", got_idx, want_idx))));
            }
            let got_lic = c.find_license_for_file(Path::new(p));
            if got_lic != want_lic {
                out.push(viol("licence-lossless", ctx(&format!("lossless find_license_for_file -> {:?}, expected {:?}", got_lic, want_lic))));
            }
            let got_files: Vec<Option<String>> = c.iter_files().map(|f| f.comment()).collect();
            let want_files: Vec<Option<String>> = (0..files.len()).map(|i| Some(format!("p{}", i))).collect();
            let got_lics: Vec<Option<String>> = c.iter_licenses().map(|l| l.name()).collect();
            let want_lics: Vec<Option<String>> = licenses.iter().enumerate().map(|(j, n)| standalone_para(j, *n).1.name().map(|x| x.to_string())).collect();
            if got_files != want_files || got_lics != want_lics {
                out.push(viol("paragraph-roles-lossless", ctx(&format!("iter_files yields {:?} (expected {:?}), iter_licenses yields {:?} (expected {:?})", got_files, want_files, got_lics, want_lics))));
            }
            for name in ["L0", "L1", "L2", "L", "L00", "l0", "L0 with exception", "L0 with"] {
                if c.find_license_by_name(name) != standalone(name) {
                    out.push(viol("licence-by-name-lossless", ctx(&format!("find_license_by_name({}) -> {:?}, expected {:?}", name, c.find_license_by_name(name), standalone(name)))));
                }
            }
        }
        Err(e) => out.push(viol("accepts-lossless", ctx(&e.to_string()))),
    }
    match ly::Copyright::from_str(&text) {
        Ok(c) => {
            let got_idx = c.find_files(Path::new(p)).and_then(|fp| c.files.iter().position(|f| std::ptr::eq(f, fp)));
            if got_idx != want_idx {
                out.push(viol("last-match-wins-lossy", ctx(&format!("lossy find_files -> paragraph {:?}, expected {:?}", got_idx, want_idx))));
            }
            let got_lic = c.find_license_for_file(Path::new(p)).cloned();
            if got_lic != want_lic {
                out.push(viol("licence-lossy", ctx(&format!("lossy find_license_for_file -> {:?}, expected {:?}", got_lic, want_lic))));
            }
            for name in ["L0", "L1", "L2", "L", "L00", "l0", "L0 with exception", "L0 with"] {
                if c.find_license_by_name(name).cloned() != standalone(name) {
                    out.push(viol("licence-by-name-lossy", ctx(&format!("lossy find_license_by_name({}) -> {:?}, expected {:?}", name, c.find_license_by_name(name), standalone(name)))));
                }
            }
            if c.files.len() != files.len() || c.licenses.len() != licenses.len() {
                out.push(viol("paragraph-roles-lossy", ctx(&format!("files {} licenses {}", c.files.len(), c.licenses.len()))));
            }
        }
        Err(e) => out.push(viol("accepts-lossy", ctx(&e))),
    }
    out
}

/// configurations of one Files paragraph: first pattern x (second pattern: none / "*.c" same line /
/// "*.c" own line / "a/b" same line) x licence kind
fn files_cfgs() -> Vec<(usize, usize, bool, usize)> {
    let mut v = vec![];
    for p1 in 0..LOOKUP_PATTERNS.len() {
        for (p2, own) in [(0, false), (4, false), (4, true), (3, false)] {
            if p1 >= 5 && p2 != 0 {
                continue; // the three-pattern fields stand alone
            }
            for lic in 0..LIC_KINDS {
                v.push((p1, p2, own, lic));
            }
        }
    }
    v
}

pub struct C17;

fn pat_space(t: Tier) -> SeqSpace {
    SeqSpace::new(&PAT_TOKENS, t.pick(3, 4), 1)
}
fn pat_space2(t: Tier) -> SeqSpace {
    SeqSpace::new(&PAT_TOKENS2, t.pick(2, 3), 1)
}
fn path_space2(t: Tier) -> SeqSpace {
    SeqSpace::new(&PATH_CHARS2, t.pick(2, 3), 0)
}
fn path_space(t: Tier, pattern_tokens: usize) -> SeqSpace {
    // thorough: 4-token patterns are crossed with paths to length 2 only (cap stated in bounds)
    let n = match t {
        Tier::Quick => 2,
        Tier::Thorough => {
            if pattern_tokens >= 4 {
                2
            } else {
                3
            }
        }
    };
    SeqSpace::new(&PATH_CHARS, n, 0)
}

impl Prop for C17 {
    type Case = C17Case;
    fn id(&self) -> &'static str {
        "C17"
    }
    fn level(&self) -> &'static str {
        "exploration"
    }
    fn rule(&self, _t: Tier) -> String {
        "(a) globs: every pattern of 1..3 tokens (thorough 4) over {a b . / + ( [ * ? \\* \\? \\\\} x every path of 0..2 characters (thorough 3; 2 for 4-token patterns) over {a b . / + ( [ * ? \\}, and every pattern of 1..2 tokens (thorough 3) over {a ) ] { } ^ $ | é - * ? A} x every path of 0..2 (thorough 3) characters over the same characters without * ?, through FilesParagraph::matches of both readers against a backtracking matcher written from the statement; (b) lookup: every copyright file (plain; header carrying a licence with text / a licence name and comment; stand-alone licence paragraphs before or between the Files paragraphs; no final newline; a comment line in front of every paragraph - these six layouts with up to 1 (thorough 2) Files paragraphs) of 0..2 Files paragraphs (thorough: a third paragraph from 8 representative configurations) x (1-2 patterns from 5, second one on the same or its own line; or three patterns, on one line separated by a tab and a double blank, or on three lines) x 4 licence kinds, with 0..2 stand-alone licence paragraphs (names L0/L1 in every order, with text or name only, and the several-word name 'L0 with exception' alone, before and after L0) x 6 paths, through find_files / find_license_for_file / find_license_by_name / iter_* of both readers against 'last match wins; own licence text else first stand-alone of that name'; every printable ASCII character and a three- and four-byte one as a literal, under '?' and next to '*' (also against its other letter case); (c) texts not starting with a Format field (incl. near misses of the field name), also through the file readers; all cases distinct; non-trivial = all".into()
    }
    fn bounds(&self, t: Tier) -> Value {
        json!({"pattern_tokens": PAT_TOKENS, "path_chars": PATH_CHARS, "pattern_tokens_2": PAT_TOKENS2, "path_chars_2": PATH_CHARS2, "max_pattern_tokens_2": t.pick(2, 3), "layouts": LAYOUTS, "max_pattern_tokens": t.pick(3, 4), "max_path_len": t.pick(2, 3), "lookup_patterns": LOOKUP_PATTERNS, "lookup_paths": LOOKUP_PATHS, "max_files_paragraphs": t.pick(2, 3)})
    }
    fn assumptions(&self) -> Vec<String> {
        vec![
            "a backslash followed by a character other than '*', '?' or '\\' has no meaning in the statement and is not generated; empty patterns are not generated".into(),
            "a licence value consisting of text only (empty first line) is not valid DEP-5 and not generated in lookups".into(),
        ]
    }
    fn n_shards(&self, t: Tier) -> usize {
        pat_space(t).n_shards() + 1 + files_cfgs().len() + 1 + pat_space2(t).n_shards()
    }
    fn explore(&self, t: Tier, shard: usize, f: &mut dyn FnMut(&C17Case) -> Verdict) {
        let ps = pat_space(t);
        if shard < ps.n_shards() {
            ps.explore(shard, &mut |pattern, idx| {
                if pattern.is_empty() {
                    return;
                }
                let pattern = pattern.to_string();
                let paths = path_space(t, idx.len());
                for s in 0..paths.n_shards() {
                    paths.explore(s, &mut |path, _| {
                        f(&C17Case::Glob { pattern: pattern.clone(), path: path.to_string() });
                    });
                }
            });
            return;
        }
        if shard == ps.n_shards() {
            for i in 0..NOT_MR.len() {
                f(&C17Case::NotMachineReadable(i));
            }
            // a looked-up path may hold any character: line breaks and NUL under '*' and '?'
            for (pattern, path) in [("*", "a\nb"), ("?", "\n"), ("a*b", "a\n\nb"), ("a?b", "a\nb"), ("*", "\u{0}"), ("a?", "a\r"), ("*.c", "x\n.c")] {
                f(&C17Case::Glob { pattern: pattern.to_string(), path: path.to_string() });
            }
            // every printable ASCII character (and a three- and a four-byte one) as a literal of a pattern, under '?', and
            // between a literal and '*'
            for c in (0x21u8..0x7f).map(|b| b as char).chain(['\u{20ac}', '\u{1f600}']) {
                if matches!(c, '*' | '?' | '\\') {
                    continue;
                }
                for pattern in [c.to_string(), "?".to_string(), format!("a{}*", c), format!("*{}", c)] {
                    let mut paths: Vec<String> = vec![];
                    for path in [c.to_string(), "a".to_string(), format!("a{}b", c), String::new(), c.to_ascii_uppercase().to_string(), c.to_ascii_lowercase().to_string()] {
                        if !paths.contains(&path) && !(pattern == "?" && c != '!' && paths.len() >= 4) {
                            paths.push(path);
                        }
                    }
                    for path in paths {
                        f(&C17Case::Glob { pattern: pattern.clone(), path });
                    }
                }
            }
            return;
        }
        // lookups, sharded by the configuration of the first Files paragraph
        let cfgs = files_cfgs();
        let li = shard - ps.n_shards() - 1;
        if li > cfgs.len() {
            // second glob alphabet
            let ps2 = pat_space2(t);
            let paths = path_space2(t);
            ps2.explore(li - cfgs.len() - 1, &mut |pattern, _| {
                if pattern.is_empty() {
                    return;
                }
                let pattern = pattern.to_string();
                for s in 0..paths.n_shards() {
                    paths.explore(s, &mut |path, _| {
                        f(&C17Case::Glob { pattern: pattern.clone(), path: path.to_string() });
                    });
                }
            });
            return;
        }
        let lic_sets: [&[usize]; 9] = [&[], &[0], &[1, 0], &[0, 0], &[3, 0], &[0, 3], &[6], &[6, 0], &[0, 6]];
        let mut emit = |files: &Vec<(usize, usize, bool, usize)>| {
            // the non-plain layouts: up to one Files paragraph (thorough: two)
            let layouts = if files.len() <= t.pick(1, 2) { LAYOUTS } else { 1 };
            for layout in 0..layouts {
                for licenses in lic_sets {
                    if layout >= 3 && licenses.is_empty() {
                        continue; // same text as the plain layout
                    }
                    for path in 0..LOOKUP_PATHS.len() {
                        f(&C17Case::Lookup { files: files.clone(), licenses: licenses.to_vec(), path, layout });
                    }
                }
            }
        };
        if li == cfgs.len() {
            emit(&vec![]);
            return;
        }
        let first = cfgs[li];
        emit(&vec![first]);
        for second in &cfgs {
            emit(&vec![first, *second]);
            if t == Tier::Thorough {
                // third paragraph: 8 representative configurations (every first pattern with licence kind 0, three with a second pattern)
                for third in cfgs.iter().step_by(10) {
                    emit(&vec![first, *second, *third]);
                }
            }
        }
    }
    fn check(&self, c: &C17Case, st: &mut Stats) -> Vec<Viol> {
        st.nontrivial += 1;
        let r = guard(1_000_000, || match c {
            C17Case::Glob { pattern, path } => check_glob(pattern, path),
            C17Case::Lookup { files, licenses, path, layout } => check_lookup(files, licenses, *path, *layout),
            C17Case::NotMachineReadable(i) => {
                let mut out = vec![];
                let t = NOT_MR[*i];
                let a = ll::Copyright::from_str(t).err();
                let b = ll::Copyright::from_str_relaxed(t).err();
                if !matches!(a, Some(ll::Error::NotMachineReadable)) || !matches!(b, Some(ll::Error::NotMachineReadable)) {
                    out.push(viol("refuses-not-machine-readable", format!("lossless reader on {:?}: from_str {:?}, from_str_relaxed {:?}; expected the not-machine-readable error", t, a.map(|e| e.to_string()), b.map(|e| e.to_string()))));
                }
                // the same text handed over as a file
                crate::props::c02::with_file(t, |path| {
                    let fa = ll::Copyright::from_file(path).err();
                    let fb = ll::Copyright::from_file_relaxed(path).err();
                    if !matches!(fa, Some(ll::Error::NotMachineReadable)) || !matches!(fb, Some(ll::Error::NotMachineReadable)) {
                        out.push(viol("refuses-not-machine-readable", format!("lossless file readers on {:?}: from_file {:?}, from_file_relaxed {:?}; expected the not-machine-readable error", t, fa.map(|e| e.to_string()), fb.map(|e| e.to_string()))));
                    }
                });
                match ly::Copyright::from_str(t) {
                    Ok(_) => out.push(viol("refuses-not-machine-readable", format!("lossy reader accepted {:?}", t))),
                    Err(e) if !e.to_lowercase().contains("machine readable") => out.push(viol("refuses-not-machine-readable", format!("lossy reader on {:?}: error {:?} does not say 'not machine readable'", t, e))),
                    Err(_) => {}
                }
                out
            }
        });
        match r {
            Ok(vs) => {
                if vs.is_empty() {
                    st.outcome(match c {
                        C17Case::Glob { pattern, path } => {
                            if gmatch(pattern, path) {
                                "glob-match"
                            } else {
                                "glob-no-match"
                            }
                        }
                        C17Case::Lookup { .. } => "lookup-ok",
                        C17Case::NotMachineReadable(_) => "refused",
                    });
                }
                vs
            }
            Err(p) => vec![viol("panic", format!("{:?}: {}", c, panic_detail(&p)))],
        }
    }
    fn shrinks(&self, c: &C17Case) -> Vec<C17Case> {
        match c {
            C17Case::Glob { pattern, path } => {
                let mut out = vec![];
                let pc: Vec<char> = path.chars().collect();
                for i in 0..pc.len() {
                    let mut x = pc.clone();
                    x.remove(i);
                    out.push(C17Case::Glob { pattern: pattern.clone(), path: x.into_iter().collect() });
                }
                // drop one pattern token (escape pairs stay together)
                let mut toks: Vec<String> = vec![];
                let mut it = pattern.chars();
                while let Some(ch) = it.next() {
                    if ch == '\\' {
                        toks.push(format!("\\{}", it.next().unwrap_or('\\')));
                    } else {
                        toks.push(ch.to_string());
                    }
                }
                for i in 0..toks.len() {
                    if toks.len() > 1 {
                        let mut x = toks.clone();
                        x.remove(i);
                        out.push(C17Case::Glob { pattern: x.concat(), path: path.clone() });
                    }
                }
                out
            }
            C17Case::Lookup { files, licenses, path, layout } => {
                let mut out = vec![];
                let layout = *layout;
                if layout != 0 {
                    out.push(C17Case::Lookup { files: files.clone(), licenses: licenses.clone(), path: *path, layout: 0 });
                }
                for i in 0..files.len() {
                    let mut x = files.clone();
                    x.remove(i);
                    out.push(C17Case::Lookup { files: x, licenses: licenses.clone(), path: *path, layout });
                    if files[i].1 != 0 {
                        let mut x = files.clone();
                        x[i].1 = 0;
                        x[i].2 = false;
                        out.push(C17Case::Lookup { files: x, licenses: licenses.clone(), path: *path, layout });
                    }
                }
                for i in 0..licenses.len() {
                    let mut x = licenses.clone();
                    x.remove(i);
                    out.push(C17Case::Lookup { files: files.clone(), licenses: x, path: *path, layout });
                }
                out
            }
            _ => vec![],
        }
    }
    fn snippet(&self, c: &C17Case, v: &Viol) -> String {
        format!("// C17 replay: {:?}\n// clause {}: {}\n", c, v.clause, v.detail.replace('\n', "\\n"))
    }
    fn required_outcomes(&self) -> Vec<&'static str> {
        vec!["glob-match", "glob-no-match", "lookup-ok", "refused"]
    }
}
