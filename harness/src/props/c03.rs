//! C03 — well-formed deb822 documents are accepted and read back exactly (DESIGN 3/C03).

use crate::core::*;
use crate::docgen::*;
use crate::kdev::*;
use deb822_lossless::{Deb822, Paragraph};
use serde::{Deserialize, Serialize};
use serde_json::{json, Value};
use std::str::FromStr;

#[derive(Clone, Serialize, Deserialize, PartialEq, Debug)]
pub struct DocCase {
    pub skel: Skel,
    pub v: Vec<usize>,
    /// rejection clause: insert junk line `junk.1` before line `junk.0`
    #[serde(default)]
    pub junk: Option<(usize, usize)>,
    /// field-name alphabet clause: a one-field document whose name contains this character (code point) at
    /// position 0 (`true`) or 1 (`false`); `v` and `skel` are ignored
    #[serde(default, skip_serializing_if = "Option::is_none")]
    pub name_char: Option<(u32, bool)>,
}

/// characters that may NOT occur in a field name (indexed through DocCase::name_char values from BAD_BASE): the control
/// characters and the blank, DEL, and non-ASCII characters of every width
pub const BAD_BASE: u32 = 0x30_0000;
pub fn bad_name_chars() -> Vec<char> {
    let mut v: Vec<char> = (0u8..=32).map(|b| b as char).collect();
    v.extend(['\u{7f}', '\u{e9}', '\u{a0}', '\u{20ac}', '\u{1f600}', '\u{85}', '\u{2028}']);
    v
}

/// documents with one very long token (indexed through DocCase::name_char values from LONG_BASE, beyond Unicode)
pub const LONG_BASE: u32 = 0x20_0000;
pub const LONG_KINDS: usize = 6;
/// (text, intended reading) of long-token document `idx`
pub fn long_doc(idx: usize) -> (String, Vec<Vec<(String, String)>>) {
    let lim = crate::props::c01::WIDTH_LIMITS;
    let (kind, n) = (idx / lim.len(), lim[idx % lim.len()]);
    let s = |x: &str| x.to_string();
    match kind {
        0 => (format!("A: {}\nB: c\n", "v".repeat(n)), vec![vec![(s("A"), "v".repeat(n)), (s("B"), s("c"))]]),
        1 => (format!("A: b\n {}\nB: c\n", "w".repeat(n)), vec![vec![(s("A"), format!("b\n{}", "w".repeat(n))), (s("B"), s("c"))]]),
        2 => (format!("{}: v\nB: c\n", "K".repeat(n)), vec![vec![("K".repeat(n), s("v")), (s("B"), s("c"))]]),
        3 => (format!("A: {}\nB: c\n", "\u{e9}".repeat(n)), vec![vec![(s("A"), "\u{e9}".repeat(n)), (s("B"), s("c"))]]),
        4 => (format!("#{}\nA: b\n\nB: c\n", "c".repeat(n)), vec![vec![(s("A"), s("b"))], vec![(s("B"), s("c"))]]),
        _ => (format!("A:{}b\n{}c\nB: c\n", " ".repeat(n), " ".repeat(n)), vec![vec![(s("A"), s("b\nc")), (s("B"), s("c"))]]),
    }
}

/// texts without any paragraph (indexed through DocCase::name_char code points below 16)
pub const ZERO_PARA: [&str; 5] = ["", "\n", "# c\n", "\n\n# c\n\n", "# c"];
pub const JUNK: [&str; 4] = ["junk", "junk more", "-x: y", "é: v"];

pub fn k_for(tier: Tier, sk: Skel) -> usize {
    match tier {
        Tier::Quick => {
            if sk.paras * sk.fields <= 2 {
                3
            } else {
                2
            }
        }
        Tier::Thorough => {
            if sk.paras * sk.fields <= 2 {
                4
            } else {
                3
            }
        }
    }
}

/// Shard table shared by the document-driven checks: (skeleton, first deviating slot | baseline | reject-shard)
#[derive(Clone, Copy)]
pub enum DocShard {
    Base(Skel),
    First(Skel, usize),
    Reject(Skel),
}

pub fn doc_shards(with_reject: bool) -> Vec<DocShard> {
    let mut v = vec![];
    for sk in skeletons() {
        v.push(DocShard::Base(sk));
        for i in 0..menus(sk).len() {
            v.push(DocShard::First(sk, i));
        }
        if with_reject {
            v.push(DocShard::Reject(sk));
        }
    }
    v
}

pub fn insert_line(text: &str, pos: usize, line: &str) -> Option<String> {
    let lines: Vec<&str> = text.split_inclusive('\n').collect();
    if pos > lines.len() {
        return None;
    }
    if pos == lines.len() && !text.is_empty() && !text.ends_with('\n') {
        return None;
    }
    let mut out = String::new();
    for (i, l) in lines.iter().enumerate() {
        if i == pos {
            out.push_str(line);
            out.push('\n');
        }
        out.push_str(l);
    }
    if pos == lines.len() {
        out.push_str(line);
        out.push('\n');
    }
    Some(out)
}

/// number of single-line corruptions: the JUNK insertions plus two mutations of an existing line
pub const N_CORRUPTIONS: usize = JUNK.len() + 2 + JUNK.len();

/// Corruption `j` at line `pos`: j < JUNK.len() inserts a junk line in front of line `pos`; JUNK.len() deletes the colon of a
/// field line (so that it is no field any more); JUNK.len()+1 removes the indentation of a continuation line (so that it is
/// no continuation any more); JUNK.len()+2.. append the junk line at the very end WITHOUT a newline.  None when the corruption does not apply or would leave a well-formed line.
pub fn corrupt(text: &str, pos: usize, j: usize) -> Option<String> {
    if j < JUNK.len() {
        return insert_line(text, pos, JUNK[j]);
    }
    let lines: Vec<&str> = text.split_inclusive('\n').collect();
    if j >= JUNK.len() + 2 {
        // the junk line as the LAST line of the document, without a final newline
        if j >= N_CORRUPTIONS || pos != lines.len() || !(text.is_empty() || text.ends_with('\n')) {
            return None;
        }
        return Some(format!("{}{}", text, JUNK[j - JUNK.len() - 2]));
    }
    let line = *lines.get(pos)?;
    let body = line.strip_suffix('\n').unwrap_or(line);
    let new_body: String = if j == JUNK.len() {
        if body.is_empty() || body.starts_with([' ', '\t', '#']) || body.matches(':').count() != 1 {
            return None;
        }
        body.replacen(':', "", 1)
    } else {
        let t = body.trim_start_matches([' ', '\t']);
        if t.len() == body.len() || t.trim().is_empty() || t.contains(':') || t.starts_with('#') {
            return None;
        }
        t.to_string()
    };
    let mut out = String::new();
    for (i, l) in lines.iter().enumerate() {
        if i == pos {
            out.push_str(&new_body);
            if l.ends_with('\n') {
                out.push('\n');
            }
        } else {
            out.push_str(l);
        }
    }
    Some(out)
}

pub struct C03;

pub fn read_items(d: &Deb822) -> Vec<Vec<(String, String)>> {
    d.paragraphs().map(|p| p.items().collect()).collect()
}

impl Prop for C03 {
    type Case = DocCase;
    fn id(&self) -> &'static str {
        "C03"
    }
    fn level(&self) -> &'static str {
        "exploration"
    }
    fn rule(&self, _t: Tier) -> String {
        "documents are choice vectors over the layout slots of a PxF skeleton (P,F in 1..3): every vector with at most k deviations from the simplest layout is rendered (text + intended reading by construction) and read with the strict reader; vectors whose deviation has no effect on the text are skipped, so every evaluated document is distinct; rejection clause: every k<=1 document x every line position x (4 inserted junk lines - at the end also without a final newline -, the colon of a field line deleted, the indentation of a continuation line removed); bad-name-character clause: a would-be field line whose name holds a control character, a blank, DEL or a non-ASCII character (inside, and where that is not a continuation or blank line, in front) makes the strict reader fail; long-token clause: a value line, a continuation line, a field name, a value of two-byte characters, a comment line and the blanks after a colon / in front of a continuation line stretched to 255 / 256 / 257 / 65535 / 65536 / 65537 characters must read as intended; field-name alphabet clause: every printable ASCII character except ':' inside a field name, and every one except '-' and '#' as its first character; non-trivial = document with at least one deviation".into()
    }
    fn bounds(&self, t: Tier) -> Value {
        let mut per = vec![];
        for sk in skeletons() {
            let m = menus(sk);
            per.push(json!({"skeleton": sk, "slots": m.len(), "k": k_for(t, sk), "vectors": kdev_count(&m, k_for(t, sk))}));
        }
        json!({"skeletons": per, "menus": {"leading": LEADING, "names_alt": NAMES_ALT, "colons": COLONS, "first_lines": FIRSTS, "continuation_lines": CONTS, "indents": INDENTS, "separators": SEPS, "trailing": TRAILING, "junk": JUNK}})
    }
    fn assumptions(&self) -> Vec<String> {
        vec![
            "value = the field's non-empty lines joined by '\\n' (pinned by the repository's own tests); whitespace-only lines and continuation lines starting with '#' are outside the domain".into(),
            "interactions of more than k layout choices are not covered".into(),
        ]
    }
    fn n_shards(&self, _t: Tier) -> usize {
        doc_shards(true).len() + 1
    }
    fn explore(&self, t: Tier, shard: usize, f: &mut dyn FnMut(&DocCase) -> Verdict) {
        if shard == doc_shards(true).len() {
            // every printable ASCII character as a field-name character (first position where deb822 allows it)
            let sk = Skel { paras: 1, fields: 1 };
            for i in 0..ZERO_PARA.len() {
                f(&DocCase { skel: sk, v: vec![], junk: None, name_char: Some((i as u32, false)) });
            }
            // a would-be field line whose name holds a character that is not allowed there must make the strict reader fail
            for (i, ch) in bad_name_chars().into_iter().enumerate() {
                f(&DocCase { skel: sk, v: vec![], junk: None, name_char: Some((BAD_BASE + i as u32, false)) });
                if !matches!(ch, ' ' | '\t' | '\n' | '\r') {
                    f(&DocCase { skel: sk, v: vec![], junk: None, name_char: Some((BAD_BASE + i as u32, true)) });
                }
            }
            // one token stretched to the limits of the narrow integer types, with its intended reading
            for idx in 0..(LONG_KINDS * crate::props::c01::WIDTH_LIMITS.len()) {
                f(&DocCase { skel: sk, v: vec![], junk: None, name_char: Some((LONG_BASE + idx as u32, false)) });
            }
            for cp in 33u32..127 {
                let ch = char::from_u32(cp).unwrap();
                if ch == ':' {
                    continue;
                }
                f(&DocCase { skel: sk, v: vec![], junk: None, name_char: Some((cp, false)) });
                if ch != '-' && ch != '#' {
                    f(&DocCase { skel: sk, v: vec![], junk: None, name_char: Some((cp, true)) });
                }
            }
            return;
        }
        match doc_shards(true)[shard] {
            DocShard::Base(sk) => {
                let m = menus(sk);
                kdev_shard(&m, k_for(t, sk), None, &mut |v| {
                    f(&DocCase { skel: sk, v: v.to_vec(), junk: None, name_char: None });
                });
            }
            DocShard::First(sk, i) => {
                let m = menus(sk);
                kdev_shard(&m, k_for(t, sk), Some(i), &mut |v| {
                    if render(sk, v).is_some() {
                        f(&DocCase { skel: sk, v: v.to_vec(), junk: None, name_char: None });
                    }
                });
            }
            DocShard::Reject(sk) => {
                let m = menus(sk);
                let mut go = |v: &[usize]| {
                    if let Some(d) = render(sk, v) {
                        let n = d.text.split_inclusive('\n').count();
                        for pos in 0..=n {
                            for j in 0..N_CORRUPTIONS {
                                if corrupt(&d.text, pos, j).is_some() {
                                    f(&DocCase { skel: sk, v: v.to_vec(), junk: Some((pos, j)), name_char: None });
                                }
                            }
                        }
                    }
                };
                kdev_shard(&m, 1, None, &mut go);
                for i in 0..m.len() {
                    kdev_shard(&m, 1, Some(i), &mut go);
                }
            }
        }
    }
    fn check(&self, c: &DocCase, st: &mut Stats) -> Vec<Viol> {
        if let Some((cp, _)) = c.name_char {
            if (cp as usize) < ZERO_PARA.len() {
                // texts without any paragraph: no paragraph is reported; the single-paragraph reader gives an error (no panic)
                let text = ZERO_PARA[cp as usize];
                st.nontrivial += 1;
                return match guard(budget_for(text.len()), || (Deb822::from_str(text).map(|d| d.paragraphs().count()), Paragraph::from_str(text).map(|p| p.items().count()))) {
                    Ok((Ok(0), Err(_))) => {
                        st.outcome("no-paragraph-ok");
                        vec![]
                    }
                    Ok((d, p)) => vec![viol("no-paragraph", format!("text {:?}: Deb822::from_str reports {:?} paragraphs, Paragraph::from_str {:?} (expected 0 paragraphs and an error)", text, d.map_err(|e| e.to_string()), p.map_err(|e| e.to_string())))],
                    Err(p) => vec![viol("panic", panic_detail(&p))],
                };
            }
        }
        if let Some((cp, first)) = c.name_char {
            if cp >= BAD_BASE {
                let Some(ch) = bad_name_chars().get((cp - BAD_BASE) as usize).copied() else { return vec![] };
                let line = if first { format!("{}x: v", ch) } else { format!("X{}y: v", ch) };
                st.nontrivial += 1;
                let mut out = vec![];
                for text in [format!("A: b\n{}\n", line), format!("{}\nA: b\n", line), format!("A: b\n\n{}", line)] {
                    match guard(budget_for(text.len()), || Deb822::from_str(&text).is_ok()) {
                        Ok(false) => {}
                        Ok(true) => out.push(viol("rejects-corrupted", format!("accepted {:?} (a field name cannot hold {:?})", text, ch))),
                        Err(p) => out.push(viol("panic", panic_detail(&p))),
                    }
                }
                if out.is_empty() {
                    st.outcome("bad-name-character-rejected");
                }
                return out;
            }
        }
        if let Some((cp, _)) = c.name_char {
            if cp >= LONG_BASE {
                let idx = (cp - LONG_BASE) as usize;
                if idx >= LONG_KINDS * crate::props::c01::WIDTH_LIMITS.len() {
                    return vec![];
                }
                let (text, want) = long_doc(idx);
                st.nontrivial += 1;
                return match guard(budget_for(text.len()), || Deb822::from_str(&text).map(|d| read_items(&d))) {
                    Ok(Ok(items)) if items == want => {
                        st.outcome("long-token-ok");
                        vec![]
                    }
                    Ok(Ok(items)) => vec![viol("reads-model", format!("text {}: got {}", crate::strings::brief(&text), crate::strings::brief(&format!("{:?}", items))))],
                    Ok(Err(e)) => vec![viol("strict-accepts", format!("text {} rejected: {}", crate::strings::brief(&text), e.to_string().replace('\n', "; ")))],
                    Err(p) => vec![viol("panic", panic_detail(&p))],
                };
            }
        }
        if let Some((cp, first)) = c.name_char {
            let ch = char::from_u32(cp).unwrap_or('A');
            let name = if first { format!("{}x", ch) } else { format!("X{}y", ch) };
            let text = format!("{}: v\nOther: w\n", name);
            st.nontrivial += 1;
            return match guard(budget_for(text.len()), || Deb822::from_str(&text).map(|d| read_items(&d))) {
                Ok(Ok(items)) => {
                    let want = vec![vec![(name.clone(), "v".to_string()), ("Other".to_string(), "w".to_string())]];
                    if items == want {
                        st.outcome("name-character-ok");
                        vec![]
                    } else {
                        vec![viol("field-name-characters", format!("text {:?}: got {:?}", text, items))]
                    }
                }
                Ok(Err(e)) => vec![viol("field-name-characters", format!("text {:?} rejected: {}", text, e.to_string().replace('\n', "; ")))],
                Err(p) => vec![viol("panic", panic_detail(&p))],
            };
        }
        let Some(doc) = render(c.skel, &c.v) else {
            return vec![];
        };
        if let Some((pos, j)) = c.junk {
            let Some(text) = corrupt(&doc.text, pos, j) else {
                return vec![];
            };
            st.nontrivial += 1;
            return match guard(budget_for(text.len()), || Deb822::from_str(&text).is_ok()) {
                Ok(false) => {
                    st.outcome_with("corrupted-rejected", c);
                    vec![]
                }
                Ok(true) => vec![viol("rejects-corrupted", format!("accepted {:?}", text))],
                Err(p) => vec![viol("panic", panic_detail(&p))],
            };
        }
        if c.v.iter().any(|x| *x != 0) {
            st.nontrivial += 1;
        }
        let text = doc.text.as_str();
        let r = guard(budget_for(text.len()), || {
            let mut out = vec![];
            let d = match Deb822::from_str(text) {
                Ok(d) => d,
                Err(e) => {
                    return vec![viol("strict-accepts", format!("{:?} rejected: {:?}", text, e.to_string()))];
                }
            };
            let got = read_items(&d);
            if got != doc.paras {
                out.push(viol("reads-model", format!("text {:?}: got {:?} want {:?}", text, got, doc.paras)));
                return out;
            }
            for (p, want) in d.paragraphs().zip(doc.paras.iter()) {
                let keys: Vec<String> = p.keys().collect();
                let wk: Vec<String> = want.iter().map(|(k, _)| k.clone()).collect();
                if keys != wk {
                    out.push(viol("keys", format!("text {:?}: keys {:?} want {:?}", text, keys, wk)));
                }
                for (k, _) in want {
                    let first = want.iter().find(|(k2, _)| k2 == k).map(|(_, v)| v.clone());
                    if p.get(k) != first {
                        out.push(viol("get-first", format!("text {:?}: get({}) = {:?} want {:?}", text, k, p.get(k), first)));
                    }
                    let all: Vec<String> = want.iter().filter(|(k2, _)| k2 == k).map(|(_, v)| v.clone()).collect();
                    let ga: Vec<String> = p.get_all(k).collect();
                    if ga != all {
                        out.push(viol("get-all", format!("text {:?}: get_all({}) = {:?} want {:?}", text, k, ga, all)));
                    }
                    if !p.contains_key(k) {
                        out.push(viol("contains-key", format!("text {:?}: contains_key({}) false", text, k)));
                    }
                }
                if p.contains_key("Nope") || p.get("Nope").is_some() || p.get_all("Nope").count() != 0 {
                    out.push(viol("absent-key", format!("text {:?}", text)));
                }
                // a name in another letter case, a prefix or an extension of a name is another name
                for (k, _) in want {
                    let mut shorter = k.clone();
                    shorter.pop();
                    for alt in [k.to_lowercase(), k.to_uppercase(), format!("{}x", k), shorter] {
                        if alt.is_empty() {
                            continue;
                        }
                        if !want.iter().any(|(k2, _)| *k2 == alt) && (p.contains_key(&alt) || p.get(&alt).is_some() || p.get_all(&alt).count() != 0) {
                            out.push(viol("absent-key", format!("text {:?}: lookup of {:?} finds the field {:?}", text, alt, k)));
                        }
                    }
                }
            }
            match Paragraph::from_str(text) {
                Ok(p) => {
                    let items: Vec<(String, String)> = p.items().collect();
                    if items != doc.paras[0] {
                        out.push(viol("paragraph-from-str", format!("text {:?}: {:?}", text, items)));
                    }
                }
                Err(e) => out.push(viol("paragraph-from-str", format!("text {:?}: {}", text, e))),
            }
            out
        });
        match r {
            Ok(vs) => {
                if vs.is_empty() {
                    st.outcome_with("accepted-and-read", c);
                }
                vs
            }
            Err(p) => vec![viol("panic", panic_detail(&p))],
        }
    }
    fn shrinks(&self, c: &DocCase) -> Vec<DocCase> {
        shrink_doc(c)
    }
    fn snippet(&self, c: &DocCase, v: &Viol) -> String {
        let text = render(c.skel, &c.v).map(|d| d.text).unwrap_or_default();
        let text = match c.junk {
            Some((pos, j)) => corrupt(&text, pos, j).unwrap_or(text),
            None => text,
        };
        format!(
            "#[test]\nfn c03_replay() {{\n    use std::str::FromStr;\n    let text = {:?};\n    let d = deb822_lossless::Deb822::from_str(text);\n    // clause {}: {}\n    println!(\"{{:?}}\", d.map(|d| d.paragraphs().map(|p| p.items().collect::<Vec<_>>()).collect::<Vec<_>>()));\n}}\n",
            text,
            v.clause,
            v.detail.replace('\n', "\\n")
        )
    }
    fn required_outcomes(&self) -> Vec<&'static str> {
        vec!["accepted-and-read", "corrupted-rejected"]
    }
}

pub fn shrink_doc(c: &DocCase) -> Vec<DocCase> {
    let mut out = vec![];
    // smaller skeletons with the all-baseline layout cannot be derived slot-wise; reset slots instead
    for i in 0..c.v.len() {
        if c.v[i] != 0 {
            let mut v = c.v.clone();
            v[i] = 0;
            if render(c.skel, &v).is_some() {
                out.push(DocCase { skel: c.skel, v, junk: c.junk, name_char: None });
            }
        }
    }
    for i in 0..c.v.len() {
        for smaller in 1..c.v[i] {
            let mut v = c.v.clone();
            v[i] = smaller;
            if render(c.skel, &v).is_some() {
                out.push(DocCase { skel: c.skel, v, junk: c.junk, name_char: None });
            }
        }
    }
    // try the same deviations on the smallest skeleton that has the slot
    for sk in skeletons() {
        if sk.paras * sk.fields < c.skel.paras * c.skel.fields {
            if let Some(v) = transplant(c, sk) {
                if render(sk, &v).is_some() {
                    out.insert(0, DocCase { skel: sk, v, junk: c.junk, name_char: None });
                }
            }
        }
    }
    out
}

/// Move a vector to a smaller skeleton when all its deviations are on slots that exist there.
fn transplant(c: &DocCase, sk: Skel) -> Option<Vec<usize>> {
    let from = slot_names(c.skel);
    let to = slot_names(sk);
    let mut v = vec![0usize; to.len()];
    for (i, x) in c.v.iter().enumerate() {
        if *x != 0 {
            let j = to.iter().position(|n| *n == from[i])?;
            v[j] = *x;
        }
    }
    Some(v)
}
