p = '/verif/harness/src/props/c15_rows.rs'
s = open(p).read()
s = s.replace('values = [date("2024-03-09T10:11:12+00:00"), date("2025-12-31T23:59:59+00:00")],', 'values = [date("2024-03-09T10:11:12+00:00"), date("2025-12-31T23:59:59+00:00"), date("2023-12-02T08:19:33+02:00"), date("2024-06-30T23:30:00-05:30")],')
s = s.replace('values = [date("2024-03-16T10:11:12+00:00"), date("2026-01-07T23:59:59+00:00")],', 'values = [date("2024-03-16T10:11:12+00:00"), date("2026-01-07T23:59:59+00:00"), date("2023-12-09T08:19:33+02:00"), date("2024-07-07T23:30:00-05:30")],')
open(p, 'w').write(s)

# ---- C16: prior contents without a final newline, holding only the later-declared half of the present fields
p = '/verif/harness/src/props/c16.rs'
s = open(p).read()
s = s.replace('''        _ => {
            for f in sp.fields.iter() {
                prior.push_str(&render_para(&[(f.name, other(f))]));
            }
        }
    }
    let be = if lossless''', '''        3 => {
            for f in sp.fields.iter() {
                prior.push_str(&render_para(&[(f.name, other(f))]));
            }
        }
        _ => {
            // only the later-declared half of the present fields (other values), after a foreign field and a comment,
            // and NO final newline: the earlier-declared fields get appended, then the existing ones are rewritten
            prior.push_str("X-Foreign-First: keep 1\\n");
            foreign.push("X-Foreign-First: keep 1".into());
            if lossless {
                prior.push_str("# a comment\\n");
                foreign.push("# a comment".into());
            }
            let half = fs.len() / 2;
            for (f, _) in &fs[half..] {
                prior.push_str(&render_para(&[(f.name, other(f))]));
            }
            if prior.ends_with('\\n') {
                prior.pop();
            }
        }
    }
    let be = if lossless''')
s = s.replace('for kind in 0..4 {', 'for kind in 0..5 {')
s = s.replace('''    /// foreign fields (and comments on the lossless back-end), 3 every own optional field present), back-end''', '''    /// foreign fields (and comments on the lossless back-end), 3 every own optional field present, 4 only the later-declared
    /// half of the present fields after a foreign field, without final newline), back-end''')
s = s.replace('update_paragraph onto 4 prior contents x 2 back-ends', 'update_paragraph onto 5 prior contents x 2 back-ends')
open(p, 'w').write(s)

# ---- C02: near-valid values in typed documents
p = '/verif/harness/src/props/c02.rs'
s = open(p).read()
s = s.replace('''    let menus: Vec<usize> = fields.iter().map(|_| 2 + GARBAGE.len()).collect();''', '''    // near-valid values: pieces of the field's own valid values (first / last item, value cut short, value with a tail)
    let near: Vec<Vec<String>> = fields
        .iter()
        .map(|(_, fs)| {
            let mut out: Vec<String> = vec![];
            for v in fs.valid.iter().take(2) {
                let parts: Vec<&str> = v.split(|c: char| c == ',' || c == ' ' || c == ':' || c == '\\n').filter(|x| !x.is_empty()).collect();
                if let Some(first) = parts.first() {
                    out.push(first.to_string());
                }
                if let Some(last) = parts.last() {
                    out.push(last.to_string());
                }
                let mut cut = v.to_string();
                cut.pop();
                out.push(cut);
                out.push(format!("{},", v));
            }
            out.sort();
            out.dedup();
            out.retain(|x| !fs.valid.contains(&x.as_str()) && !x.is_empty());
            out.truncate(6);
            out
        })
        .collect();
    let menus: Vec<usize> = fields.iter().enumerate().map(|(i, _)| 2 + GARBAGE.len() + near[i].len()).collect();''')
s = s.replace('''            for ((fpi, fs), choice) in fields.iter().zip(v.iter()) {
                if *fpi != pi {
                    continue;
                }
                let val: Option<&str> = match *choice {
                    0 => Some(fs.valid[0]),
                    1 => None,
                    g => Some(GARBAGE[g - 2]),
                };''', '''            for (fidx, ((fpi, fs), choice)) in fields.iter().zip(v.iter()).enumerate() {
                if *fpi != pi {
                    continue;
                }
                let val: Option<&str> = match *choice {
                    0 => Some(fs.valid[0]),
                    1 => None,
                    g if g - 2 < GARBAGE.len() => Some(GARBAGE[g - 2]),
                    g => Some(near[fidx][g - 2 - GARBAGE.len()].as_str()),
                };''')
s = s.replace('fields absent or replaced by one of 7 garbage values', 'fields absent or replaced by one of 7 garbage values or up to 6 near-valid values (pieces of the valid values of the field: first / last item, value cut short, value with a trailing comma)')
open(p, 'w').write(s)
print('ok')
