//! C08 — lossy deb822 values print to text that reads back equal; edits follow a list (DESIGN 3/C08).

use crate::core::*;
use crate::kdev::product;
use deb822_lossless::lossy;
use deb822_lossless::Deb822;
use serde::{Deserialize, Serialize};
use serde_json::{json, Value};
use std::collections::HashSet;
use std::str::FromStr;

pub const NAMES8: [&str; 3] = ["A", "B", "X-y"];
pub const VALUES8: [&str; 22] = ["", "v", "v w  ", "é", "a:b", "a #b", ":x", "#x", "v\nw", "\nv", "\nv\nw", "v\n.\nw", "v\nw:x", "v  \nw", "v\nw\t", "é\u{3000}\nw  \nx", "v\n:x", "v\n-x",
    // a continuation line starting with a four-byte character, NUL, form feed / NEL (white space to char::is_whitespace, not to deb822), a tab inside
    "v\n\u{1f600}w", "a\u{0}b", "v\u{c}\nw\u{85}", "v\tw"];

#[derive(Clone, Serialize, Deserialize, PartialEq, Debug)]
pub enum LOp {
    Set(usize, usize),
    Insert(usize, usize),
    Remove(usize),
}

#[derive(Clone, Serialize, Deserialize, PartialEq, Debug)]
pub enum C08Case {
    /// paragraphs of (name index, value index) fields
    Doc(Vec<Vec<(usize, usize)>>),
    /// edit history on a paragraph: initial fields + ops
    Edit { init: Vec<(usize, usize)>, ops: Vec<LOp> },
    /// field-name alphabet: printable ASCII character `cp` at position `pos` of a name (0 inside "X?y", 1 last "k?",
    /// 2 first "?k" - not for '-' and '#'), the field carrying VALUES8[value], followed by a field "B"; printed, re-read by
    /// both readers, and get / set / insert / remove by that name
    NameChar { cp: u32, pos: u8, value: usize },
}
pub const NAMECHAR_VALUES: [usize; 4] = [1, 0, 8, 10];

pub struct C08(pub std::sync::atomic::AtomicU64);

fn build_doc(spec: &[Vec<(String, String)>]) -> Option<lossy::Deb822> {
    // lossy::Deb822 has no public constructor: parse a skeleton with the right number of paragraphs, then replace the fields
    let skeleton = vec!["K: v\n"; spec.len()].join("\n");
    let mut d = lossy::Deb822::from_str(&skeleton).ok()?;
    for (p, fields) in d.iter_mut().zip(spec.iter()) {
        p.fields = fields.iter().map(|(n, v)| lossy::Field { name: n.clone(), value: v.clone() }).collect();
    }
    Some(d)
}

fn named(spec: &[Vec<(usize, usize)>]) -> Vec<Vec<(String, String)>> {
    spec.iter().map(|p| p.iter().map(|(n, v)| (NAMES8[*n].to_string(), VALUES8[*v].to_string())).collect()).collect()
}

fn name_with(cp: u32, pos: u8) -> Option<String> {
    let c = char::from_u32(cp)?;
    if !(0x21..=0x7e).contains(&cp) || c == ':' {
        return None;
    }
    match pos {
        0 => Some(format!("X{}y", c)),
        1 => Some(format!("k{}", c)),
        _ if c == '-' || c == '#' => None,
        _ => Some(format!("{}k", c)),
    }
}

fn check_name_char(cp: u32, pos: u8, value: usize) -> Vec<Viol> {
    let Some(name) = name_with(cp, pos) else { return vec![] };
    let val = VALUES8[value % VALUES8.len()];
    let fields = vec![(name.clone(), val.to_string()), ("B".to_string(), "v".to_string())];
    let mut out = check_doc(&[fields.clone()]);
    out.extend(check_doc(&[vec![("B".to_string(), "v".to_string())], vec![(name.clone(), val.to_string())]]));
    let ctx = |w: &str| format!("paragraph {:?}: {}", fields, w);
    let fresh = || -> lossy::Paragraph { fields.iter().cloned().collect() };
    let items = |p: &lossy::Paragraph| -> M { p.iter().map(|(k, v)| (k.to_string(), v.to_string())).collect() };
    let p = fresh();
    if p.get(&name) != Some(val) || p.get("B") != Some("v") {
        out.push(viol("get-first", ctx(&format!("get({:?}) = {:?}, get(B) = {:?}", name, p.get(&name), p.get("B")))));
    }
    let mut q = fresh();
    q.set(&name, "x");
    if items(&q) != vec![(name.clone(), "x".to_string()), ("B".to_string(), "v".to_string())] {
        out.push(viol("list-model", ctx(&format!("after set({:?}, x): {:?}", name, items(&q)))));
    }
    let mut q = fresh();
    q.insert(&name, "x");
    if items(&q) != vec![(name.clone(), val.to_string()), ("B".to_string(), "v".to_string()), (name.clone(), "x".to_string())] {
        out.push(viol("list-model", ctx(&format!("after insert({:?}, x): {:?}", name, items(&q)))));
    }
    let mut q = fresh();
    q.remove(&name);
    if items(&q) != vec![("B".to_string(), "v".to_string())] {
        out.push(viol("list-model", ctx(&format!("after remove({:?}): {:?}", name, items(&q)))));
    }
    // the paragraph re-read from its text answers alike
    if let Ok(parsed) = lossy::Paragraph::from_str(&p.to_string()) {
        if parsed.get(&name) != p.get(&name) {
            out.push(viol("get-first", ctx(&format!("after re-reading, get({:?}) = {:?}, before {:?}", name, parsed.get(&name), p.get(&name)))));
        }
    }
    out
}

fn nonblank(v: &str) -> Vec<String> {
    v.split('\n').filter(|l| !l.is_empty()).map(|l| l.to_string()).collect()
}

fn check_doc(spec: &[Vec<(String, String)>]) -> Vec<Viol> {
    let mut out = vec![];
    let Some(d) = build_doc(spec) else {
        return vec![viol("harness", "could not build the lossy document")];
    };
    let printed = d.to_string();
    let ctx = |w: &str| format!("lossy document {:?} printed {:?}: {}", d, printed, w);
    match lossy::Deb822::from_str(&printed) {
        Ok(back) => {
            if back != d {
                out.push(viol("lossy-roundtrip", ctx(&format!("reads back as {:?}", back))));
            }
        }
        Err(e) => out.push(viol("lossy-roundtrip", ctx(&format!("lossy reader rejects: {}", e)))),
    }
    match Deb822::from_str(&printed) {
        Ok(ll) => {
            let got: Vec<Vec<(String, Vec<String>)>> = ll.paragraphs().map(|p| p.items().map(|(k, v)| (k, nonblank(&v))).collect()).collect();
            let want: Vec<Vec<(String, Vec<String>)>> = d.iter().map(|p| p.iter().map(|(k, v)| (k.to_string(), nonblank(v))).collect()).collect();
            if got != want {
                out.push(viol("lossless-reads-same", ctx(&format!("lossless reads {:?}", got))));
            }
        }
        Err(e) => out.push(viol("lossless-accepts", ctx(&format!("lossless reader rejects: {}", e.to_string().replace('\n', "; "))))),
    }
    // paragraphs separated by exactly one blank line; no other blank lines
    let blank_lines = printed.split('\n').rev().skip(1).filter(|l| l.is_empty()).count();
    if blank_lines != spec.len().saturating_sub(1) {
        out.push(viol("one-blank-line-between-paragraphs", ctx(&format!("{} blank lines for {} paragraphs", blank_lines, spec.len()))));
    }
    // single paragraph: Paragraph's own Display / FromStr
    if spec.len() == 1 {
        let p = d.iter().next().unwrap().clone();
        match lossy::Paragraph::from_str(&p.to_string()) {
            Ok(back) => {
                if back != p {
                    out.push(viol("lossy-paragraph-roundtrip", ctx(&format!("paragraph reads back as {:?}", back))));
                }
            }
            Err(e) => out.push(viol("lossy-paragraph-roundtrip", ctx(&format!("paragraph rejected: {}", e)))),
        }
    }
    out
}

type M = Vec<(String, String)>;
/// values written by the edit operations: one line, two lines, the empty value, a value that starts on the next line
const EDIT_VALUES: [&str; 4] = ["x", "p\nq", "", "\nv"];
/// names used by the edit operations: the three of the documents plus a twin in another letter case and an extension of a
/// present name (to the model they are simply other names)
const EDIT_NAMES: [&str; 5] = ["A", "B", "X-y", "a", "AB"];
fn ename(n: usize) -> &'static str {
    EDIT_NAMES[n % EDIT_NAMES.len()]
}

fn model_apply(m: &mut M, op: &LOp) {
    match op {
        LOp::Set(n, v) => {
            let (n, v) = (ename(*n), EDIT_VALUES[*v % EDIT_VALUES.len()]);
            if let Some(f) = m.iter_mut().find(|(k, _)| k == n) {
                f.1 = v.to_string();
            } else {
                m.push((n.to_string(), v.to_string()));
            }
        }
        LOp::Insert(n, v) => m.push((ename(*n).to_string(), EDIT_VALUES[*v % EDIT_VALUES.len()].to_string())),
        LOp::Remove(n) => m.retain(|(k, _)| k != ename(*n)),
    }
}

fn run_edit(init: &[(usize, usize)], ops: &[LOp]) -> (Vec<Viol>, String) {
    let mut p: lossy::Paragraph = init.iter().map(|(n, v)| (NAMES8[*n].to_string(), VALUES8[*v].to_string())).collect();
    let mut m: M = init.iter().map(|(n, v)| (NAMES8[*n].to_string(), VALUES8[*v].to_string())).collect();
    for op in ops {
        match op {
            LOp::Set(n, v) => p.set(ename(*n), EDIT_VALUES[*v % EDIT_VALUES.len()]),
            LOp::Insert(n, v) => p.insert(ename(*n), EDIT_VALUES[*v % EDIT_VALUES.len()]),
            LOp::Remove(n) => p.remove(ename(*n)),
        }
        model_apply(&mut m, op);
    }
    let mut out = vec![];
    let got: M = p.iter().map(|(k, v)| (k.to_string(), v.to_string())).collect();
    let ctx = |w: &str| format!("initial {:?} ops {:?}: {}", init, ops, w);
    if got != m {
        out.push(viol("list-model", ctx(&format!("paragraph {:?} model {:?}", got, m))));
    }
    if p.len() != m.len() || p.is_empty() != m.is_empty() {
        out.push(viol("len", ctx(&format!("len {} model {}", p.len(), m.len()))));
    }
    for n in EDIT_NAMES {
        let want = m.iter().find(|(k, _)| k == n).map(|(_, v)| v.as_str());
        if p.get(n) != want {
            out.push(viol("get-first", ctx(&format!("get({}) = {:?}, model {:?}", n, p.get(n), want))));
        }
        // near misses of a name are other names
        for alt in [n.to_lowercase(), format!("{}x", n), n[..n.len() - 1].to_string()] {
            if !alt.is_empty() && !EDIT_NAMES.contains(&alt.as_str()) && p.get(&alt).is_some() {
                out.push(viol("get-first", ctx(&format!("get({:?}) answers although no field has that name", alt))));
            }
        }
    }
    // the edited paragraph prints to text that reads back equal (an empty paragraph prints nothing)
    if !m.is_empty() {
        let printed = p.to_string();
        match lossy::Paragraph::from_str(&printed) {
            Ok(back) if back == p => {}
            Ok(back) => out.push(viol("lossy-paragraph-roundtrip", ctx(&format!("printed {:?} reads back as {:?}", printed, back)))),
            Err(e) => out.push(viol("lossy-paragraph-roundtrip", ctx(&format!("printed {:?} is rejected: {}", printed, e)))),
        }
        // the same paragraph reached by parsing its text answers the accessors alike
        if let Ok(parsed) = lossy::Paragraph::from_str(&printed) {
            for n in EDIT_NAMES {
                if parsed.get(n) != p.get(n) {
                    out.push(viol("get-first", ctx(&format!("after re-reading, get({}) = {:?}, before {:?}", n, parsed.get(n), p.get(n)))));
                }
            }
        }
    }
    (out, format!("{:?}", got))
}

const EDIT_INITS: [&[(usize, usize)]; 6] = [&[], &[(0, 1)], &[(0, 1), (1, 1)], &[(0, 1), (1, 1), (0, 3)], &[(1, 8), (1, 1)], &[(2, 1), (0, 0), (2, 9)]];

/// the first two steps of a history use every name and value; deeper steps the three names and two values of the
/// documents (the state space of the breadth-first search grows with the menu to the power of the depth)
fn edit_ops_at(step: usize) -> Vec<LOp> {
    let (names, values) = if step < 2 { (EDIT_NAMES.len(), EDIT_VALUES.len()) } else { (3, 2) };
    let mut v = vec![];
    for n in 0..names {
        for x in 0..values {
            v.push(LOp::Set(n, x));
            v.push(LOp::Insert(n, x));
        }
        v.push(LOp::Remove(n));
    }
    v
}

fn edit_ops() -> Vec<LOp> {
    let mut v = vec![];
    for n in 0..EDIT_NAMES.len() {
        for x in 0..EDIT_VALUES.len() {
            v.push(LOp::Set(n, x));
            v.push(LOp::Insert(n, x));
        }
        v.push(LOp::Remove(n));
    }
    v
}

impl Prop for C08 {
    type Case = C08Case;
    fn id(&self) -> &'static str {
        "C08"
    }
    fn level(&self) -> &'static str {
        "model_checking"
    }
    fn rule(&self, _t: Tier) -> String {
        "(a) print/parse: the full product of lossy documents over 3 names x 22 canonical values (empty, trailing spaces, Unicode, ':' '#' inside and leading, multi-line, empty first line, '.' line) for one paragraph of 1-3 fields, 2-3 paragraphs of 1 field and (thorough) 2 paragraphs x 2 fields; each is printed, re-read by both readers and checked for one blank line between paragraphs; every printable ASCII character except ':' inside, at the end and (except '-' '#') at the start of a field name x 4 values, printed, re-read and used with get/set/insert/remove; (b) edits: breadth-first search over get/set/insert/remove histories (5 names - the three, a twin in another letter case, an extension - x 4 values incl. the empty one and one starting on the next line, in the first two steps of a history; 3 names x 2 values in deeper steps) from 6 initial paragraphs, the state being the field vector itself (exact cache), against a Vec model; states = distinct field vectors, transitions = operations applied; non-trivial = every document / every distinct edit state".into()
    }
    fn bounds(&self, t: Tier) -> Value {
        json!({"names": NAMES8, "values": VALUES8, "edit_depth": t.pick(4, 6), "edit_initial_paragraphs": EDIT_INITS.len(), "edit_ops": edit_ops().len()})
    }
    fn assumptions(&self) -> Vec<String> {
        vec!["continuation lines starting with '#' and a value consisting only of an empty first line are outside the domain".into()]
    }
    fn n_shards(&self, t: Tier) -> usize {
        // 0: 1 para x 1..3 fields; 1: 2 paras x 1 field; 2: 3 paras x 1 field; 3..: edits per init; last (thorough): 2x2
        3 + EDIT_INITS.len() + t.pick(0, 36)
    }
    fn explore(&self, t: Tier, shard: usize, f: &mut dyn FnMut(&C08Case) -> Verdict) {
        let nv = VALUES8.len();
        let pair = |x: usize| (x / nv, x % nv);
        let n = 3 * nv;
        match shard {
            0 => {
                f(&C08Case::Doc(vec![])); // the document without paragraphs
                for cp in 0x21..=0x7eu32 {
                    for pos in 0..3u8 {
                        if name_with(cp, pos).is_some() {
                            for value in NAMECHAR_VALUES {
                                f(&C08Case::NameChar { cp, pos, value });
                            }
                        }
                    }
                }
                for fields in 1..=3 {
                    product(&vec![n; fields], &mut |v| {
                        f(&C08Case::Doc(vec![v.iter().map(|x| pair(*x)).collect()]));
                    });
                }
            }
            1 => product(&[n, n], &mut |v| {
                f(&C08Case::Doc(v.iter().map(|x| vec![pair(*x)]).collect()));
            }),
            2 => product(&[n, n, n], &mut |v| {
                f(&C08Case::Doc(v.iter().map(|x| vec![pair(*x)]).collect()));
            }),
            s if s < 3 + EDIT_INITS.len() => {
                let init: Vec<(usize, usize)> = EDIT_INITS[s - 3].to_vec();
                let depth = t.pick(4, 6);
                let mut seen: HashSet<String> = HashSet::new();
                if let Some(k) = f(&C08Case::Edit { init: init.clone(), ops: vec![] }).key {
                    seen.insert(k);
                }
                let mut frontier: Vec<Vec<LOp>> = vec![vec![]];
                for _ in 0..depth {
                    let mut next = vec![];
                    for h in &frontier {
                        for op in edit_ops_at(h.len()) {
                            let mut ops = h.clone();
                            ops.push(op);
                            let v = f(&C08Case::Edit { init: init.clone(), ops: ops.clone() });
                            if v.violated {
                                continue;
                            }
                            if let Some(k) = v.key {
                                if seen.insert(k) {
                                    self.0.fetch_add(1, std::sync::atomic::Ordering::Relaxed);
                                    next.push(ops);
                                }
                            }
                        }
                    }
                    frontier = next;
                }
            }
            s => {
                // thorough: 2 paragraphs x 2 fields, sharded by the first field
                let first = s - 3 - EDIT_INITS.len();
                product(&[n, n, n], &mut |v| {
                    f(&C08Case::Doc(vec![vec![pair(first), pair(v[0])], vec![pair(v[1]), pair(v[2])]]));
                });
            }
        }
    }
    fn check(&self, c: &C08Case, st: &mut Stats) -> Vec<Viol> {
        let r = guard(100_000, || match c {
            C08Case::Doc(spec) => (check_doc(&named(spec)), None),
            C08Case::NameChar { cp, pos, value } => (check_name_char(*cp, *pos, *value), None),
            C08Case::Edit { init, ops } => {
                let (v, k) = run_edit(init, ops);
                (v, Some(k))
            }
        });
        match r {
            Ok((vs, key)) => {
                match c {
                    C08Case::Doc(_) => {
                        st.nontrivial += 1;
                        if vs.is_empty() {
                            st.outcome("doc-ok")
                        }
                    }
                    C08Case::NameChar { .. } => {
                        st.nontrivial += 1;
                        if vs.is_empty() {
                            st.outcome("name-char-ok")
                        }
                    }
                    C08Case::Edit { .. } => {
                        st.transitions += 1;
                        if vs.is_empty() {
                            st.outcome("edit-ok")
                        }
                    }
                }
                st.key = key;
                vs
            }
            Err(p) => vec![viol("panic", format!("{:?}: {}", c, panic_detail(&p)))],
        }
    }
    fn shrinks(&self, c: &C08Case) -> Vec<C08Case> {
        let mut out = vec![];
        match c {
            C08Case::Doc(spec) => {
                for p in 0..spec.len() {
                    if spec.len() > 1 {
                        let mut s = spec.clone();
                        s.remove(p);
                        out.push(C08Case::Doc(s));
                    }
                    for fi in 0..spec[p].len() {
                        if spec[p].len() > 1 {
                            let mut s = spec.clone();
                            s[p].remove(fi);
                            out.push(C08Case::Doc(s));
                        }
                        if spec[p][fi].0 != 0 {
                            let mut s = spec.clone();
                            s[p][fi].0 = 0;
                            out.push(C08Case::Doc(s));
                        }
                        if spec[p][fi].1 != 1 {
                            let mut s = spec.clone();
                            s[p][fi].1 = 1;
                            out.push(C08Case::Doc(s));
                        }
                    }
                }
            }
            C08Case::NameChar { cp, pos, value } => {
                if *value != 1 {
                    out.push(C08Case::NameChar { cp: *cp, pos: *pos, value: 1 });
                }
            }
            C08Case::Edit { init, ops } => {
                for i in 0..ops.len() {
                    let mut o = ops.clone();
                    o.remove(i);
                    out.push(C08Case::Edit { init: init.clone(), ops: o });
                }
                for i in 0..init.len() {
                    let mut x = init.clone();
                    x.remove(i);
                    out.push(C08Case::Edit { init: x, ops: ops.clone() });
                }
            }
        }
        out
    }
    fn snippet(&self, c: &C08Case, v: &Viol) -> String {
        format!("// C08 replay: {:?}\n// names {:?} values {:?}\n// clause {}: {}\n", c, NAMES8, VALUES8, v.clause, v.detail.replace('\n', "\\n"))
    }
    fn states_from(&self, m: &Stats) -> Option<(u64, u64)> {
        Some((self.0.load(std::sync::atomic::Ordering::Relaxed).max(1), m.transitions.max(1)))
    }
    fn extra_evidence(&self, _t: Tier, _m: &Stats) -> Value {
        json!({"distinct_edit_states": self.0.load(std::sync::atomic::Ordering::Relaxed)})
    }
    fn required_outcomes(&self) -> Vec<&'static str> {
        vec!["doc-ok", "edit-ok", "name-char-ok"]
    }
}
