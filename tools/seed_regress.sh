#!/bin/sh
# Runs every seeded change under /verif/seeded against the quick check of the property it breaks.
# Prints one line per seed: CAUGHT (exit 1) / MISSED (exit 0) / ERROR.  Always leaves /repo reverted.
cd /verif || exit 2
miss=0
for d in seeded/*/; do
  name=$(basename "$d")
  if python3 -c "import json,sys;sys.exit(0 if json.load(open('$d/meta.json')).get('retired') else 1)"; then echo "RETIRED $name"; continue; fi
  prop=$(python3 -c "import json,sys;print(json.load(open('$d/meta.json'))['breaks_property'])")
  out=$(tools/seedtest.sh "/verif/${d}patch.diff" "$prop" quick 2>&1); rc=$?
  case $rc in
    1) echo "CAUGHT $name ($prop)";;
    0) echo "MISSED $name ($prop)"; miss=$((miss+1));;
    *) echo "ERROR  $name ($prop) rc=$rc: $(echo "$out" | tail -1)"; miss=$((miss+1));;
  esac
done
echo "seed_regress: missed_or_error=$miss"
[ $miss -eq 0 ]
